#!/bin/bash
# re-runs every stored seed against its property's quick check; prints CAUGHT/MISSED per seed
cd /verif
for d in seeded/*/; do
  s=$(basename $d); p=${s%%-*}
  out=$(tools/try_seed.sh $p /verif/$d/patch.diff 2>&1)
  if echo "$out" | grep -q "^VIOLATION"; then echo "CAUGHT $s"; else echo "MISSED $s"; echo "$out" | head -3; fi
done
