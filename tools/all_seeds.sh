#!/bin/bash
# re-runs every stored seed against its property's quick check in a scratch worktree (GOSYM_REPO); prints CAUGHT/MISSED
cd /verif
wt=/tmp/wt-allseeds
git -C /repo worktree remove --force $wt 2>/dev/null; git -C /repo worktree add -q --detach $wt HEAD || exit 2
for d in seeded/*/; do
  s=$(basename $d); p=${s%%-*}
  out=$(tools/try_seed_wt.sh $p /verif/$d/patch.diff $wt 2>&1)
  if echo "$out" | grep -q "^VIOLATION"; then echo "CAUGHT $s"; else echo "MISSED $s"; echo "$out" | head -3; fi
done
git -C /repo worktree remove --force $wt
