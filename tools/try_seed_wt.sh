#!/bin/bash
# usage: try_seed_wt.sh <prop> <patch.diff> <scratch-worktree> [extra check args]
# like try_seed.sh but applies the patch in a scratch worktree of /repo (same commit) and points the check at it
# (GOSYM_REPO), so that /repo stays untouched while other checks are running against it.
set -u
id="$1"; patch="$2"; wt="$3"; shift 3
cd "$wt" || exit 2
git checkout -q -- . ; if [ "$(git rev-parse HEAD)" != "$(git -C /repo rev-parse HEAD)" ]; then git checkout -q --detach "$(git -C /repo rev-parse HEAD)"; fi
git apply "$patch" || { echo "patch does not apply"; exit 2; }
(cd /verif && GOSYM_REPO="$wt" ./check "$id" --tier quick --no-evidence "$@" 2>&1 | grep -E "^VIOLATION|^RESULT|^KNOWN|^INCONCLUSIVE|DISAGREE|assertion=" | cut -c1-220 | head -12)
git checkout -q -- .
