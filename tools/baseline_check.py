#!/usr/bin/env python3
"""Run the repository test suite (guard off) and compare with BASELINE.json stable_pass.
usage: baseline_check.py [pkg patterns...]   (default ./...)
Prints stable tests that did not pass; exit 1 if any."""
import json, subprocess, sys, os
base = json.load(open('/root/.vp/BASELINE.json'))
stable = set(base['stable_pass'])
pats = sys.argv[1:] or ['./...']
env = dict(os.environ, GOFLAGS='-mod=mod', GOPROXY='off')
env.pop('GOSUMDB', None); env.pop('GOTOOLCHAIN', None)
p = subprocess.run(['go', 'test', '-json', '-vet=off', '-count=1', '-timeout', '25m'] + pats, cwd='/repo', env=env, capture_output=True, text=True)
passed, failed, pkgs = set(), set(), set()
for line in p.stdout.splitlines():
    try: ev = json.loads(line)
    except Exception: continue
    pk = ev.get('Package'); pkgs.add(pk)
    if 'Test' in ev and ev.get('Action') in ('pass', 'fail'):
        (passed if ev['Action'] == 'pass' else failed).add(f"{pk}::{ev['Test']}")
want = {t for t in stable if t.split('::')[0] in pkgs}
missing = sorted(want - passed)
print(f"packages={len(pkgs)} passed={len(passed)} failed={len(failed)} stable_expected={len(want)} stable_not_passing={len(missing)}")
for m in missing[:50]: print("  NOT PASSING:", m)
sys.exit(1 if missing else 0)
