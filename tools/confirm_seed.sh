#!/bin/bash
# usage: confirm_seed.sh <worktree> <seed-dir> : verifies (in a scratch worktree) that the demo passes on the clean tree,
# fails with the patch, and that the touched package's own tests still pass with the patch. Appends the outcome to <seed-dir>/confirm.txt
set -u
wt="$1"; sd="$2"
cd "$wt" || exit 2
export GOFLAGS=-mod=mod GOPROXY=off
dir=$(python3 -c "import json;print(json.load(open('$sd/agent_meta.json'))['demo_dir'])")
git checkout -q -- . ; git clean -fdq
cp "$sd/demo_test.go" "$dir/zz_demo_test.go"
go test -vet=off -count=1 -run 'Demo' "./$dir/" > "$sd/demo_on_clean.log" 2>&1; c1=$?
git apply "$sd/patch.diff" || { echo "patch does not apply"; exit 2; }
go build ./... || { echo "build fails"; exit 2; }
go test -vet=off -count=1 -run 'Demo' "./$dir/" > "$sd/demo_on_mutant.log" 2>&1; c2=$?
rm "$dir/zz_demo_test.go"
# internal/cloud/repos has scale tests that fail / exceed the time limit on the clean tree as well: -short there
short=""; case "$dir" in internal/cloud/repos*) short="-short";; esac
go test -vet=off -count=1 $short -timeout 8m "./$dir/" > "$sd/pkg_tests_on_mutant.log" 2>&1; c3=$?
git checkout -q -- . ; git clean -fdq
echo "$(basename $sd): demo_on_clean_exit=$c1 (want 0) demo_on_mutant_exit=$c2 (want !=0) pkg_tests_on_mutant_exit=$c3 (want 0)" | tee "$sd/confirm.txt"
tail -c 600 "$sd/demo_on_mutant.log" > "$sd/demo_on_mutant.tail"; rm -f "$sd/demo_on_mutant.log" "$sd/demo_on_clean.log" "$sd/pkg_tests_on_mutant.log"
