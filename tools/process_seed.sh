#!/bin/bash
# usage: process_seed.sh <PROP>  : takes /tmp/wt-<PROP>/SEED, stores it as seeded/<PROP>-<n>, confirms it in the
# scratch worktree and runs the property's quick check against it (apply to /repo, check, revert)
set -u
p="$1"; n=1; while [ -e /verif/seeded/$p-$n ]; do n=$((n+1)); done; d=/verif/seeded/$p-$n; echo "storing as $p-$n"
mkdir -p $d; cp /tmp/wt-$p/SEED/* $d/ 2>/dev/null || cp /tmp/seedout-$p/* $d/ || exit 2
/verif/tools/confirm_seed.sh /tmp/wt-$p $d
echo "--- check"
/verif/tools/try_seed.sh $p $d/patch.diff | head -6
