#!/usr/bin/env python3
# For every property: which anchored files (and which of their top-level functions/methods) were never
# executed by the quick check (per evidence/<id>.json functions_encoded). A development aid for finding
# anchored code no harness reaches.
import json,re,os,subprocess,sys
props=[json.loads(l) for l in open('/verif/properties.jsonl')]
for p in props:
    pid=p['id']
    ev=json.load(open(f'/verif/evidence/{pid}.json'))
    enc=set(ev['coverage'].get('functions_encoded') or [])
    encnames=set()
    for f in enc:
        m=re.match(r'^\(\*?(.+)\)\.(\w+)',f)
        if m:
            encnames.add((m.group(1).split('/')[-1].split('.')[0],m.group(1).split('.')[-1]+'.'+m.group(2)))
        else:
            q=f.split('/')[-1]
            pk,_,fn=q.partition('.')
            encnames.add((pk,fn.split('$')[0]))
    for a in p['anchors']['files']:
        path='/repo/'+a
        files=[path] if path.endswith('.go') else [os.path.join(path,x) for x in os.listdir(path) if x.endswith('.go') and not x.endswith('_test.go')] if os.path.isdir(path) else []
        for fp in files:
            if not os.path.exists(fp): print(pid,'MISSING',fp); continue
            src=open(fp).read()
            pkg=re.search(r'^package (\w+)',src,re.M).group(1)
            fns=[]
            for m in re.finditer(r'^func (?:\((\w+) \*?(\w+)(?:\[.*?\])?\) )?(\w+)\(',src,re.M):
                name=(m.group(2)+'.' if m.group(2) else '')+m.group(3)
                fns.append(name)
            hit=[f for f in fns if (pkg,f) in encnames]
            miss=[f for f in fns if (pkg,f) not in encnames]
            print(f"{pid} {a if fp==path else a+os.path.basename(fp)}: {len(hit)}/{len(fns)} encoded; not reached: {', '.join(miss[:40])}")
