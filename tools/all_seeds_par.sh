#!/bin/bash
# usage: all_seeds_par.sh [N]  - like all_seeds.sh but N scratch worktrees in parallel (default 3); output order is by group
cd /verif
N=${1:-3}
ls -d seeded/*/ | sed 's#seeded/##; s#/##' > /tmp/allseeds.list
for g in $(seq 0 $((N-1))); do
  (
    wt=/tmp/wt-allseeds$g
    git -C /repo worktree remove --force $wt 2>/dev/null; git -C /repo worktree add -q --detach $wt HEAD || exit 2
    i=0
    while read s; do
      if [ $((i % N)) -eq $g ]; then
        p=${s%%-*}
        out=$(tools/try_seed_wt.sh $p /verif/seeded/$s/patch.diff $wt 2>&1)
        if echo "$out" | grep -q "^VIOLATION"; then echo "CAUGHT $s"; else echo "MISSED $s"; echo "$out" | head -3; fi
      fi
      i=$((i+1))
    done < /tmp/allseeds.list
    git -C /repo worktree remove --force $wt
  ) > /tmp/all_seeds.$g.log 2>&1 &
done
wait
cat /tmp/all_seeds.*.log | sort -k2 -V
