#!/usr/bin/env python3
# usage: seed_meta.py <seed-dir-name> <detection> <detected_by> [origin-extra]
import json,sys
d,det,by=sys.argv[1:4]
extra=sys.argv[4] if len(sys.argv)>4 else ""
a=json.load(open(f'/verif/seeded/{d}/agent_meta.json'))
m={"property":a['property'],"summary":a['summary'],"needs_to_manifest":a['needs'],
   "demo":{"file":"demo_test.go","package_dir":a['demo_dir']},
   "confirmed_by_me":open(f'/verif/seeded/{d}/confirm.txt').read().strip(),
   "what_i_ran":["tools/confirm_seed.sh <scratch worktree> <seed dir>  (demo on clean tree passes; demo with patch fails; the package's own tests pass with the patch)",
                 f"tools/try_seed.sh {a['property']} /verif/seeded/{d}/patch.diff  (git apply in /repo, quick check, git checkout)"],
   "detection":det,"detected_by":by,
   "origin":"independent sub-agent given only the property text and a scratch worktree, plus one sentence naming the spot already covered by an earlier seed / the accepted known findings so that it picks a different one"+extra}
json.dump(m,open(f'/verif/seeded/{d}/meta.json','w'),indent=1,ensure_ascii=False)
print("meta written",d)
