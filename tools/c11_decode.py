#!/usr/bin/env python3
# decode C11 counterexample tapes: label who mapping_id target ptype cmdType
import json,glob,sys
for f in sorted(glob.glob('/verif/replays/C11/*.json')):
    t=json.load(open(f))
    tape=t.get('tape',t)
    draws=tape.get('Draws') or tape.get('draws')
    kv=[((d.get('Kind') or d.get('kind')), d.get('V') if 'V' in d else d.get('v')) for d in draws]
    ch=[v for k,v in kv if k=='choose']
    i=max(j for j,(k,v) in enumerate(kv) if k=='choose')
    rest=kv[i+1:]
    b=[v for k,v in rest if k=='bool']
    by=[v for k,v in rest if k=='byte']
    print(f.split('/')[-1][:8], t.get('label') or t.get('Label'), 'who=%s mid=%s tgt=%s'%tuple(ch[:3]), 'resp=%s'%(b[0] if b else '?'), 'cmd=%s'%(by[2] if len(by)>2 else '?'))
