#!/bin/bash
# usage: process_seed_wt.sh <PROP> [extra check args]: store /tmp/seedout-<PROP> (or the worktree's SEED) as the next seeded/<PROP>-n,
# confirm it in the scratch worktree /tmp/wt-<PROP> and run the quick check against the patched worktree (GOSYM_REPO)
p=$1; shift
n=1; while [ -e /verif/seeded/$p-$n ]; do n=$((n+1)); done; d=/verif/seeded/$p-$n
mkdir -p $d; cp /tmp/seedout-$p/* $d/ 2>/dev/null || cp /tmp/wt-$p/SEED/* $d/ || exit 2
/verif/tools/confirm_seed.sh /tmp/wt-$p $d >/dev/null 2>&1; cut -c1-110 $d/confirm.txt
echo "--- check $p-$n"
/verif/tools/try_seed_wt.sh $p $d/patch.diff /tmp/wt-$p "$@" 2>&1 | head -3
