#!/bin/bash
# usage: try_seed.sh <prop> <patch.diff> [extra check args]   — applies the patch to /repo, runs the quick check, reverts.
set -u
id="$1"; patch="$2"; shift 2
cd /repo || exit 2
if ! git diff --quiet; then echo "repo dirty; abort"; exit 2; fi
git apply "$patch" || { echo "patch does not apply"; exit 2; }
(cd /verif && ./check "$id" --tier quick --no-evidence "$@" 2>&1 | grep -E "^VIOLATION|^RESULT|^KNOWN|^INCONCLUSIVE|DISAGREE|assertion=" | cut -c1-220 | head -12)
git -C /repo checkout -- . 
git -C /repo status --short | head -3
