#!/usr/bin/env python3
# Regenerates MANIFEST.json from harness/*/spec.json (claimed) and na.json (not applicable).
import json, glob, os
base = json.load(open('/root/.vp/BASELINE.json'))
checks = []
meta = json.load(open('/verif/harness/meta.json'))
for spec in sorted(glob.glob('/verif/harness/C*/spec.json')):
    s = json.load(open(spec)); pid = s['property']
    m = meta.get(pid, {})
    if m.get('unclaimed'): continue
    checks.append({
        "property_id": pid,
        "quick_cmd": f"./check {pid} --tier quick",
        "thorough_cmd": f"./check {pid} --tier thorough",
        "evidence_file": f"/verif/evidence/{pid}.json",
        "replay_cmd_template": f"./check {pid} --replay {{path}}",
        "engine": "gosym",
        "level_claimed": {"category": "model_checking",
            "text": m.get("text", "bounded symbolic execution of the real functions (go/ssa -> SMT); every assertion decided by z3 for all symbolic inputs within the stated bounds"),
            "design_ref": "DESIGN.md section 5 " + pid},
        "level_note": m.get("note", "bounds, environment intercepts and trusted base as listed in the evidence file's assumptions"),
        "technique": m.get("technique", "SMT-based bounded symbolic execution of go/ssa (gosym + z3)")
    })
na = [{"property_id": k, "reason": v["na"]} for k, v in sorted(meta.items()) if v.get("na")]
man = {
 "version": 1,
 "setup_cmd": "cd /verif/gosym && GOFLAGS=-mod=mod GOPROXY=off go build -o /verif/bin/gosym ./cmd/gosym && /verif/bin/gosym selftest",
 "hooks": {"guard": "verif", "enable": "none needed: harnesses and the harness API are injected by go/packages and go test -overlay; no hook commits exist in /repo",
           "baseline_off_cmd": base["cmd"], "source_commits": [], "add_only": True},
 "engines": [{"name": "gosym", "path": "/verif/gosym", "serves_properties": [c["property_id"] for c in checks],
              "kind_free_text": "symbolic executor for go/ssa written for this task; SMT-LIB2 to z3 (cross-checked with z3 5.1 and cvc5); native replay of every witness via go test -overlay"}],
 "checks": checks,
 "not_applicable": na,
 "notes": "All checks share one engine. A check exits 1 only for a violation that the solver found AND that replayed against the native build; unknown/unsupported/budget outcomes are reported as reduced coverage in the evidence and exit 0."
}
json.dump(man, open('/verif/MANIFEST.json', 'w'), indent=1)
print("claimed:", [c["property_id"] for c in checks], "n/a:", [n["property_id"] for n in na])
