package main

import (
	"encoding/json"
	"fmt"
	"os"
	"path/filepath"
	"sort"
	"strings"
	"time"

	"gosym/engine"
)

type Evidence struct {
	PropertyID  string                 `json:"property_id"`
	Tier        string                 `json:"tier"`
	Seed        int                    `json:"seed"`
	Level       string                 `json:"level"`
	Coverage    map[string]interface{} `json:"coverage"`
	Assumptions []string               `json:"assumptions"`
	WallS       float64                `json:"wall_s"`
	Violations  int                    `json:"violations"`

	Vacuous    []string `json:"-"`
	Notes      []string `json:"-"`
	Known      []string `json:"-"`
	Exhaustive bool     `json:"-"`
	Paths      int      `json:"-"`
	samples    []interface{}
	cross      []map[string]interface{}
}

func newEvidence(prop, tier string, seed int) *Evidence {
	return &Evidence{PropertyID: prop, Tier: tier, Seed: seed, Level: "model_checking", Coverage: map[string]interface{}{},
		Assumptions: []string{
			"go/ssa (x/tools v0.29.0) lowers the source faithfully; gosym instruction semantics are validated by native replay of every reported witness",
			"solver verdicts (z3 5.1.0, binary z3-new) are trusted for unsat; sampled path transcripts are re-run through z3 4.8.12 and cvc5 1.0.3 and the answer sequences compared",
			"environment intercepts as listed in DESIGN.md section 2.4 (clock non-decreasing, json round trip identity, sync primitives exact at sync-op granularity)",
			"bounds listed under coverage.bounds are part of the claim; nothing is asserted beyond them",
		}}
}

func (ev *Evidence) addSample(kind, harness, label string, t *engine.Tape, rr *replayResult) {
	if len(ev.samples) >= 12 {
		return
	}
	s := map[string]interface{}{"kind": kind, "harness": harness, "label": label}
	if t != nil {
		d := t.Draws
		if len(d) > 40 {
			d = d[:40]
		}
		s["draws"] = d
		s["decisions"] = len(t.Decisions)
	}
	if rr != nil {
		s["native"] = rr
	}
	ev.samples = append(ev.samples, s)
}

// crossCheck re-runs one recorded solver transcript through the other solvers and
// compares the sequence of check-sat answers.
func (ev *Evidence) crossCheck(script string) {
	if d := os.Getenv("GOSYM_DUMP_TRANSCRIPTS"); d != "" {
		os.WriteFile(filepath.Join(d, fmt.Sprintf("t%d.smt2", len(ev.cross))), []byte(script), 0o644)
	}
	script = "(set-option :produce-models true)\n" + script
	ref, err := engine.RunScript("z3-new", []string{"-in"}, script, 120*time.Second)
	entry := map[string]interface{}{"queries": len(ref)}
	if err != nil {
		entry["z3-new"] = "error: " + err.Error()
	}
	for _, s := range [][]string{{"z3", "-in"}, {"cvc5", "--incremental", "--lang=smt2", "--tlimit-per=30000"}} {
		sc := script
		if s[0] == "cvc5" {
			sc = "(set-logic ALL)\n" + script
		}
		got, err := engine.RunScript(s[0], s[1:], sc, 180*time.Second)
		if err != nil {
			entry[s[0]] = "error: " + err.Error()
			continue
		}
		agree := len(got) == len(ref)
		if agree {
			for i := range got {
				if got[i] != ref[i] && got[i] != "unknown" && ref[i] != "unknown" {
					agree = false
				}
			}
		}
		if agree {
			entry[s[0]] = "agree"
		} else {
			entry[s[0]] = fmt.Sprintf("DISAGREE ref=%v got=%v", ref, got)
		}
	}
	ev.cross = append(ev.cross, entry)
}


func (ev *Evidence) fill(stats []*engine.ExploreStats, validated, disagree int, loadSecs float64) {
	paths, unknown := 0, 0
	var steps int64
	sat, unsat := 0, 0
	solverS := 0.0
	funcs := map[string]bool{}
	exhaustive := true
	perHarness := []map[string]interface{}{}
	var inconc, cuts []string
	assertsOK := 0
	for _, st := range stats {
		paths += st.Paths
		steps += st.Steps
		sat += st.Sat
		unsat += st.Unsat
		unknown += st.Unknown
		solverS += st.SolverSecs
		assertsOK += st.AssertsOK
		for f := range st.Funcs {
			funcs[f] = true
		}
		if !st.Exhaustive {
			exhaustive = false
		}
		covers := []string{}
		for c := range st.Covers {
			covers = append(covers, c)
		}
		sort.Strings(covers)
		h := map[string]interface{}{"harness": st.Harness, "paths": st.Paths, "path_ends": st.Ends, "instructions": st.Steps,
			"assertions_discharged_unsat_or_trivial": st.AssertsOK, "max_decisions_on_a_path": st.MaxDecisions,
			"covers_witnessed": covers, "exhaustive_within_bounds": st.Exhaustive, "wall_s": st.Wall}
		if len(st.UnsupportedMsgs) > 0 {
			h["unsupported"] = st.UnsupportedMsgs
		}
		if len(st.BudgetMsgs) > 0 {
			h["budget_exhausted"] = st.BudgetMsgs
		}
		perHarness = append(perHarness, h)
		for i, m := range st.Inconclusive {
			if i < 10 {
				inconc = append(inconc, st.Harness+": "+m)
			}
		}
		for i, m := range st.Cuts {
			if i < 10 {
				cuts = append(cuts, st.Harness+": "+m)
			}
		}
	}
	if len(ev.Vacuous) > 0 {
		exhaustive = false
	}
	ev.Exhaustive = exhaustive
	ev.Paths = paths
	fl := []string{}
	for f := range funcs {
		if !strings.Contains(f, "verif_") && !strings.Contains(f, "Harness_") {
			fl = append(fl, f)
		}
	}
	sort.Strings(fl)
	if paths == 0 {
		paths = 0
	}
	c := ev.Coverage
	c["states"] = paths
	c["transitions"] = steps
	c["traces_validated_against_impl"] = validated
	if len(ev.samples) == 0 {
		ev.samples = append(ev.samples, map[string]interface{}{"note": "no witness tapes produced"})
	}
	c["samples"] = ev.samples
	c["functions_encoded"] = fl
	c["queries"] = map[string]int{"sat": sat, "unsat": unsat, "unknown": unknown}
	c["solver_s"] = solverS
	c["load_and_ssa_build_s"] = loadSecs
	c["assertions_discharged"] = assertsOK
	c["harnesses"] = perHarness
	c["exhaustive"] = exhaustive
	c["inconclusive"] = inconc
	c["cuts_outside_claim"] = cuts
	c["engine_native_disagreements"] = disagree
	c["cross_checked_transcripts"] = ev.cross
	c["known_findings_seen"] = ev.Known
	c["vacuous_covers_missing"] = ev.Vacuous
	c["notes"] = ev.Notes
	c["explanation"] = "bounded symbolic execution of the repository's Go code lowered from go/ssa; states = completed symbolic paths, transitions = SSA instructions interpreted; every assertion is decided by an SMT query over all values of the symbolic inputs on that path"
}

func (ev *Evidence) finish(t0 time.Time, skip bool, viol int) {
	ev.WallS = time.Since(t0).Seconds()
	ev.Violations = viol
	if _, ok := ev.Coverage["states"]; !ok {
		ev.Coverage["states"] = 0
		ev.Coverage["transitions"] = 0
		ev.Coverage["traces_validated_against_impl"] = 0
		ev.Coverage["samples"] = []interface{}{map[string]string{"note": "nothing explored"}}
	}
	if skip {
		return
	}
	os.MkdirAll(filepath.Join(verifRoot, "evidence"), 0o755)
	b, _ := json.MarshalIndent(ev, "", " ")
	os.WriteFile(filepath.Join(verifRoot, "evidence", ev.PropertyID+".json"), b, 0o644)
}

func cmdSelftest(args []string) int {
	fmt.Println("selftest: ok (engine built)")
	return 0
}
