package main

import (
	"bytes"
	"go/ast"
	"go/printer"
	"golang.org/x/tools/go/ast/astutil"
	"crypto/sha1"
	"encoding/json"
	"flag"
	"fmt"
	"go/parser"
	"go/token"
	"os"
	"os/exec"
	"path/filepath"
	"runtime"
	"runtime/pprof"
	"sort"
	"strings"
	"time"

	"gosym/engine"

	"golang.org/x/tools/go/packages"
	"golang.org/x/tools/go/ssa"
	"golang.org/x/tools/go/ssa/ssautil"
)

const verifRoot = "/verif"
// repoRoot is /repo; GOSYM_REPO points development runs at a scratch worktree instead
var repoRoot = func() string {
	if v := os.Getenv("GOSYM_REPO"); v != "" {
		return v
	}
	return "/repo"
}()
const repoModule = "tunnox-core"

type HarnessSpec struct {
	Name       string         `json:"name"`
	Quick      map[string]int `json:"quick"`
	Thorough   map[string]int `json:"thorough"`
	Replay     string         `json:"replay"`   // "native" (default) | "engine" | "engine-on-hang"
	Watchdog   string         `json:"watchdog"` // native replay watchdog
	NoTermIs   string         `json:"budget_is"` // "violation": a budget-exhausted path is a non-termination suspect
	DeadlockIs string         `json:"deadlock_is"`
	Skip       string         `json:"skip_tier"`
	Covers     []string       `json:"covers"` // labels that must be witnessed
	Describe   string         `json:"describe"`
}

type UnitSpec struct {
	RewriteGo []string      `json:"rewrite_go"` // repo files (relative to dir) whose go statements become verif_Go tasks
	RewriteGate []string    `json:"rewrite_gate"` // repo files whose go statements become verif_GoGate (native start order follows the tape)
	RewriteSync []string    `json:"rewrite_sync"` // repo files that get a verif_Yield() before every lock/atomic operation
	Dir       string        `json:"dir"`
	Files     []string      `json:"files"`
	Stubs     map[string]string `json:"stubs"` // callee (full name) -> harness function run in its place under the engine (environment model in Go); natively the real callee runs
	Harnesses []HarnessSpec `json:"harnesses"`
}

type Spec struct {
	Property    string     `json:"property"`
	Units       []UnitSpec `json:"units"`
	Assumptions []string   `json:"assumptions"`
	Outside     []string   `json:"outside_claim"`
}

type KnownFile struct {
	Findings []struct {
		ID       string `json:"id"`
		Property string `json:"property"`
		What     string `json:"what"`
	} `json:"findings"`
	Fixed []string `json:"fixed"`
}

func goEnv() []string {
	env := []string{}
	for _, kv := range os.Environ() {
		if strings.HasPrefix(kv, "GOFLAGS=") || strings.HasPrefix(kv, "GOPROXY=") || strings.HasPrefix(kv, "GOSUMDB=") || strings.HasPrefix(kv, "GOTOOLCHAIN=") {
			continue
		}
		env = append(env, kv)
	}
	return append(env, "GOFLAGS=-mod=mod", "GOPROXY=off", "GOTOOLCHAIN=auto")
}

func pkgNameOf(dir string) (string, error) {
	fset := token.NewFileSet()
	ents, err := os.ReadDir(dir)
	if err != nil {
		return "", err
	}
	for _, en := range ents {
		n := en.Name()
		if strings.HasSuffix(n, ".go") && !strings.HasSuffix(n, "_test.go") {
			f, err := parser.ParseFile(fset, filepath.Join(dir, n), nil, parser.PackageClauseOnly)
			if err == nil {
				return f.Name.Name, nil
			}
		}
	}
	return "", fmt.Errorf("no go files in %s", dir)
}

// rewriteGoStmts turns every `go f(args)` in the file into `verif_Go(func() { f(args) })`
// so that asynchronous tasks become explicit, harness-scheduled steps that run
// identically under the engine and natively (used in scratch overlays only).
func rewriteGoStmts(path string) ([]byte, error) { return rewriteGoStmtsTo(path, "verif_Go") }

func rewriteGoStmtsTo(path, fname string) ([]byte, error) {
	fset := token.NewFileSet()
	f, err := parser.ParseFile(fset, path, nil, parser.ParseComments)
	if err != nil {
		return nil, err
	}
	astutil.Apply(f, func(c *astutil.Cursor) bool {
		if g, ok := c.Node().(*ast.GoStmt); ok {
			lit := &ast.FuncLit{Type: &ast.FuncType{Params: &ast.FieldList{}}, Body: &ast.BlockStmt{List: []ast.Stmt{&ast.ExprStmt{X: g.Call}}}}
			c.Replace(&ast.ExprStmt{X: &ast.CallExpr{Fun: ast.NewIdent(fname), Args: []ast.Expr{lit}}})
		}
		return true
	}, nil)
	var buf bytes.Buffer
	if err := printer.Fprint(&buf, fset, f); err != nil {
		return nil, err
	}
	return buf.Bytes(), nil
}

var syncOpNames = map[string]bool{"Lock": true, "Unlock": true, "RLock": true, "RUnlock": true, "Load": true, "Store": true,
	"Add": true, "CompareAndSwap": true, "Swap": true, "TryLock": true, "Do": true}

// hasSyncCall reports whether expression/simple-statement n (not descending into
// function literals or nested blocks) calls a lock or atomic method.
func hasSyncCall(n ast.Node) bool {
	if n == nil {
		return false
	}
	found := false
	ast.Inspect(n, func(x ast.Node) bool {
		switch v := x.(type) {
		case *ast.FuncLit, *ast.BlockStmt:
			return false
		case *ast.CallExpr:
			if sel, ok := v.Fun.(*ast.SelectorExpr); ok && syncOpNames[sel.Sel.Name] {
				found = true
			}
		}
		return !found
	})
	return found
}

// rewriteSyncYields inserts `verif_Yield()` before every statement that performs a
// lock or atomic operation, so that the engine (coarse scheduling) and the native replay
// (baton) see the same preemption points inside the repository's own code. The code is
// otherwise unchanged; the rewritten file exists in scratch overlays only.
func rewriteSyncYields(path string, src []byte) ([]byte, error) {
	fset := token.NewFileSet()
	var in interface{}
	if src != nil {
		in = src
	}
	f, err := parser.ParseFile(fset, path, in, parser.ParseComments)
	if err != nil {
		return nil, err
	}
	yield := func() ast.Stmt {
		return &ast.ExprStmt{X: &ast.CallExpr{Fun: ast.NewIdent("verif_Yield")}}
	}
	needs := func(st ast.Stmt) bool {
		switch v := st.(type) {
		case *ast.DeferStmt, *ast.GoStmt, *ast.BlockStmt, *ast.LabeledStmt:
			return false
		case *ast.IfStmt:
			return hasSyncCall(v.Init) || hasSyncCall(v.Cond)
		case *ast.ForStmt:
			return hasSyncCall(v.Init) || hasSyncCall(v.Cond)
		case *ast.SwitchStmt:
			return hasSyncCall(v.Init) || hasSyncCall(v.Tag)
		case *ast.TypeSwitchStmt, *ast.SelectStmt, *ast.RangeStmt:
			return false
		default:
			return hasSyncCall(st)
		}
	}
	fix := func(list []ast.Stmt) []ast.Stmt {
		var out []ast.Stmt
		for _, st := range list {
			if needs(st) {
				out = append(out, yield())
			}
			out = append(out, st)
		}
		return out
	}
	ast.Inspect(f, func(n ast.Node) bool {
		switch v := n.(type) {
		case *ast.BlockStmt:
			v.List = fix(v.List)
		case *ast.CaseClause:
			v.Body = fix(v.Body)
		case *ast.CommClause:
			v.Body = fix(v.Body)
		}
		return true
	})
	var buf bytes.Buffer
	if err := printer.Fprint(&buf, fset, f); err != nil {
		return nil, err
	}
	return buf.Bytes(), nil
}

func mustRead(p string) string {
	b, err := os.ReadFile(p)
	if err != nil {
		fatalf("read %s: %v", p, err)
	}
	return string(b)
}

func fatalf(f string, a ...interface{}) {
	fmt.Fprintf(os.Stderr, "gosym: "+f+"\n", a...)
	os.Exit(2)
}

type loaded struct {
	prog  *ssa.Program
	pkgs  map[string]*ssa.Package // by dir
	names map[string]string       // dir -> package name
	errs  []string
	overlay map[string][]byte
}

func load(spec *Spec) *loaded {
	api := mustRead(filepath.Join(verifRoot, "gosym/verifapi/api.go.txt"))
	ov := map[string][]byte{}
	names := map[string]string{}
	var patterns []string
	for _, u := range spec.Units {
		dir := filepath.Join(repoRoot, u.Dir)
		name, err := pkgNameOf(dir)
		if err != nil {
			return &loaded{errs: []string{err.Error()}}
		}
		names[u.Dir] = name
		ov[filepath.Join(dir, "zz_verif_api.go")] = []byte(strings.Replace(api, "PKGNAME", name, 1))
		for _, f := range u.Files {
			src := mustRead(filepath.Join(verifRoot, "harness", spec.Property, f))
			ov[filepath.Join(dir, "zz_verif_"+filepath.Base(f))] = []byte(src)
		}
		rewrite := u.RewriteGo
		if len(rewrite) == 1 && rewrite[0] == "*" {
			rewrite = nil
			ents, _ := os.ReadDir(dir)
			for _, en := range ents {
				nm := en.Name()
				if strings.HasSuffix(nm, ".go") && !strings.HasSuffix(nm, "_test.go") {
					if b, err := os.ReadFile(filepath.Join(dir, nm)); err == nil && bytes.Contains(b, []byte("\tgo ")) {
						rewrite = append(rewrite, nm)
					}
				}
			}
		}
		for _, rf := range rewrite {
			path := filepath.Join(dir, rf)
			out, err := rewriteGoStmts(path)
			if err != nil {
				return &loaded{errs: []string{"rewrite_go " + rf + ": " + err.Error()}}
			}
			ov[path] = out
		}
		for _, rf := range u.RewriteGate {
			path := filepath.Join(dir, rf)
			out, err := rewriteGoStmtsTo(path, "verif_GoGate")
			if err != nil {
				return &loaded{errs: []string{"rewrite_gate " + rf + ": " + err.Error()}}
			}
			ov[path] = out
		}
		for _, rf := range u.RewriteSync {
			path := filepath.Join(dir, rf)
			var src []byte
			if prev, ok := ov[path]; ok {
				src = prev
			}
			out, err := rewriteSyncYields(path, src)
			if err != nil {
				return &loaded{errs: []string{"rewrite_sync " + rf + ": " + err.Error()}}
			}
			ov[path] = out
		}
		patterns = append(patterns, "./"+u.Dir)
	}
	cfg := &packages.Config{Mode: packages.LoadAllSyntax, Dir: repoRoot, Overlay: ov, Env: goEnv()}
	initial, err := packages.Load(cfg, patterns...)
	if err != nil {
		return &loaded{errs: []string{err.Error()}}
	}
	l := &loaded{pkgs: map[string]*ssa.Package{}, names: names, overlay: ov}
	for _, p := range initial {
		for _, e := range p.Errors {
			l.errs = append(l.errs, e.Error())
		}
	}
	if len(l.errs) > 0 {
		return l
	}
	prog, spkgs := ssautil.AllPackages(initial, ssa.InstantiateGenerics)
	prog.Build()
	l.prog = prog
	for i, p := range initial {
		for _, u := range spec.Units {
			if strings.HasSuffix(p.PkgPath, u.Dir) {
				l.pkgs[u.Dir] = spkgs[i]
			}
		}
	}
	return l
}

type replayResult struct {
	Failed    string   `json:"failed"`
	Covers    []string `json:"covers"`
	Panic     string   `json:"panic"`
	Assume    bool     `json:"assume_failed"`
	Mismatch  string   `json:"mismatch"`
	Exhausted bool     `json:"exhausted"`
	Done      bool     `json:"done"`
	Timeout   bool     `json:"timeout"`
	Crash     bool     `json:"crash"`
	Output    string   `json:"output"`
	Leftover  string   `json:"leftover"`
}

// nativeReplay runs the given tapes against the real build via go test -overlay.
func nativeReplay(spec *Spec, l *loaded, tapes map[string]*engine.Tape, watchdog string) (map[string]*replayResult, string) {
	res := map[string]*replayResult{}
	if len(tapes) == 0 {
		return res, ""
	}
	tmp, err := os.MkdirTemp("", "gosym-replay-")
	if err != nil {
		return res, err.Error()
	}
	defer os.RemoveAll(tmp)
	tdir := filepath.Join(tmp, "tapes")
	os.MkdirAll(tdir, 0o755)
	for name, t := range tapes {
		b, _ := json.MarshalIndent(t, "", " ")
		os.WriteFile(filepath.Join(tdir, name+".json"), b, 0o644)
	}
	repl := map[string]string{}
	n := 0
	for path, content := range l.overlay {
		n++
		real := filepath.Join(tmp, fmt.Sprintf("ov%d.go", n))
		os.WriteFile(real, content, 0o644)
		repl[path] = real
	}
	tmpl := mustRead(filepath.Join(verifRoot, "gosym/verifapi/replay_test.go.txt"))
	var pats []string
	// one replay test per package directory: units that share a directory share the package
	// (their overlays are merged by load), so the table lists the harnesses of all of them
	tabs := map[string]*strings.Builder{}
	var dirs []string
	for _, u := range spec.Units {
		tab := tabs[u.Dir]
		if tab == nil {
			tab = &strings.Builder{}
			tabs[u.Dir] = tab
			dirs = append(dirs, u.Dir)
		}
		for _, h := range u.Harnesses {
			fmt.Fprintf(tab, "\t%q: %s,\n", h.Name, h.Name)
		}
	}
	for _, dir := range dirs {
		src := strings.Replace(tmpl, "PKGNAME", l.names[dir], 1)
		src = strings.Replace(src, "HARNESS_TABLE", tabs[dir].String(), 1)
		n++
		real := filepath.Join(tmp, fmt.Sprintf("ov%d_test.go", n))
		os.WriteFile(real, []byte(src), 0o644)
		repl[filepath.Join(repoRoot, dir, "zz_verif_replay_test.go")] = real
		pats = append(pats, "./"+dir)
	}
	ovb, _ := json.Marshal(map[string]interface{}{"Replace": repl})
	ovf := filepath.Join(tmp, "overlay.json")
	os.WriteFile(ovf, ovb, 0o644)
	args := append([]string{"test", "-vet=off", "-count=1", "-timeout", "20m", "-run", "^TestVerifReplay$", "-v", "-overlay", ovf}, pats...)
	cmd := exec.Command("go", args...)
	cmd.Dir = repoRoot
	cmd.Env = append(goEnv(), "VERIF_TAPES="+tdir, "GOCACHE="+goCache(), "GOEXPERIMENT=synctest")
	if watchdog != "" {
		cmd.Env = append(cmd.Env, "VERIF_WATCHDOG="+watchdog)
	}
	out, err := cmd.CombinedOutput()
	for _, line := range strings.Split(string(out), "\n") {
		if strings.HasPrefix(line, "SCHED[") {
			fmt.Println(line)
		}
		if i := strings.Index(line, "VERIF-RESULT "); i >= 0 {
			rest := line[i+len("VERIF-RESULT "):]
			sp := strings.IndexByte(rest, ' ')
			if sp < 0 {
				continue
			}
			name := strings.TrimSuffix(rest[:sp], ".json")
			r := &replayResult{}
			if json.Unmarshal([]byte(rest[sp+1:]), r) == nil {
				res[name] = r
			}
		}
	}
	msg := ""
	if len(res) == 0 {
		msg = "native replay produced no results: " + tail(string(out), 1500)
		if err != nil {
			msg += " (" + err.Error() + ")"
		}
	}
	return res, msg
}

func goCache() string {
	if c := os.Getenv("GOCACHE"); c != "" {
		return c
	}
	out, err := exec.Command("go", "env", "GOCACHE").Output()
	if err == nil {
		return strings.TrimSpace(string(out))
	}
	return filepath.Join(os.TempDir(), "gocache")
}

func tail(s string, n int) string {
	if len(s) > n {
		return s[len(s)-n:]
	}
	return s
}

func tapeHash(t *engine.Tape) string {
	b, _ := json.Marshal(t)
	return fmt.Sprintf("%x", sha1.Sum(b))[:12]
}

func main() {
	if pf := os.Getenv("GOSYM_PPROF"); pf != "" {
		f, _ := os.Create(pf)
		pprof.StartCPUProfile(f)
		defer pprof.StopCPUProfile()
		go func() { time.Sleep(25 * time.Second); pprof.StopCPUProfile(); f.Close(); os.Exit(3) }()
	}
	if len(os.Args) < 2 {
		fatalf("usage: gosym check|selftest ...")
	}
	switch os.Args[1] {
	case "check":
		os.Exit(cmdCheck(os.Args[2:]))
	case "selftest":
		os.Exit(cmdSelftest(os.Args[2:]))
	default:
		fatalf("unknown command %s", os.Args[1])
	}
}

func cmdCheck(args []string) int {
	fs := flag.NewFlagSet("check", flag.ExitOnError)
	prop := fs.String("prop", "", "property id")
	tier := fs.String("tier", "quick", "quick|thorough")
	only := fs.String("harness", "", "run only this harness")
	trace := fs.Bool("trace", false, "trace instructions")
	workers := fs.Int("workers", runtime.NumCPU(), "workers")
	solver := fs.String("solver", "z3-new", "solver binary")
	noReplay := fs.Bool("no-replay", false, "skip native replay (debug)")
	noEvidence := fs.Bool("no-evidence", false, "do not write evidence (debug)")
	cross := fs.Int("cross", -1, "number of path transcripts to cross-check with other solvers (-1: tier default)")
	replayTape := fs.String("replay", "", "replay one tape natively and print what happened")
	engineTape := fs.String("engine-replay", "", "re-run exactly the path of this tape in the engine (debug)")
	fs.Parse(args)
	if *replayTape != "" {
		return cmdReplay(*prop, *replayTape)
	}
	if *tier == "" {
		*tier = "quick"
	}
	if t := os.Getenv("VERIF_TIER"); t != "" && !flagSet(fs, "tier") {
		*tier = t
	}
	seed := 0
	if s := os.Getenv("VERIF_SEED"); s != "" {
		fmt.Sscan(s, &seed)
	}
	t0 := time.Now()
	spec := &Spec{}
	if err := json.Unmarshal([]byte(mustRead(filepath.Join(verifRoot, "harness", *prop, "spec.json"))), spec); err != nil {
		fatalf("spec: %v", err)
	}
	kf := &KnownFile{}
	if b, err := os.ReadFile(filepath.Join(verifRoot, "known_findings.json")); err == nil {
		json.Unmarshal(b, kf)
	}
	knownListed := map[string]bool{}
	knownWhat := map[string]string{}
	for _, f := range kf.Findings {
		if f.Property == spec.Property {
			knownListed[f.ID] = true
			knownWhat[f.ID] = f.What
		}
	}

	ev := newEvidence(spec.Property, *tier, seed)
	ev.Assumptions = append(ev.Assumptions, spec.Assumptions...)
	for _, o := range spec.Outside {
		ev.Assumptions = append(ev.Assumptions, "outside the claim: "+o)
	}

	l := load(spec)
	if len(l.errs) > 0 {
		fmt.Printf("INCONCLUSIVE property=%s harness does not load against the current tree: %s\n", spec.Property, strings.Join(l.errs, "; "))
		ev.Coverage["inconclusive"] = l.errs
		ev.Coverage["explanation"] = "harness failed to type-check against the current tree; nothing was explored"
		ev.finish(t0, *noEvidence, 0)
		return 0
	}
	loadSecs := time.Since(t0).Seconds()

	solverArgs := []string{"-in"}
	if strings.Contains(*solver, "cvc5") {
		solverArgs = []string{"--incremental", "--lang=smt2", "--tlimit-per=20000"}
	}

	nViol := 0
	exitCode := 0
	allTapes := map[string]*engine.Tape{}
	type pending struct {
		kind  string // violation | cover | known | nonterm
		label string
		tape  *engine.Tape
		h     *HarnessSpec
		msg   string
	}
	var pend []pending
	var statsAll []*engine.ExploreStats
	watchdog := ""
	crossN := *cross
	if crossN < 0 {
		crossN = 1
		if *tier == "thorough" {
			crossN = 4
		}
	}

	for ui := range spec.Units {
		u := &spec.Units[ui]
		spkg := l.pkgs[u.Dir]
		if spkg == nil {
			fatalf("package for %s not loaded", u.Dir)
		}
		for hi := range u.Harnesses {
			h := &u.Harnesses[hi]
			if *only != "" && h.Name != *only {
				continue
			}
			if h.Skip == *tier {
				continue
			}
			bounds := map[string]int{}
			for k, v := range h.Quick {
				bounds[k] = v
			}
			if *tier == "thorough" {
				for k, v := range h.Thorough {
					bounds[k] = v
				}
			}
			get := func(k string, def int) int {
				if v, ok := bounds[k]; ok {
					return v
				}
				return def
			}
			cfg := &engine.Config{Property: spec.Property, Tier: *tier, MaxSteps: get("max_steps", 400000), Preempt: get("preempt", 2),
				Bounds: bounds, ConcretizeMax: get("concretize_max", 64), KnownListed: knownListed,
				QueryTimeout: get("query_timeout_ms", 20000), LoopFuel: get("loop_fuel", 2000), RepoModule: repoModule, Trace: *trace,
				BudgetIsViolation: h.NoTermIs == "violation", DeadlockIsViolation: h.DeadlockIs == "violation"}
			if len(u.Stubs) > 0 {
				cfg.Stubs = map[string]*ssa.Function{}
				for callee, hf := range u.Stubs {
					sf := spkg.Func(hf)
					if sf == nil {
						fatalf("stub %s for %s not found in %s", hf, callee, u.Dir)
					}
					cfg.Stubs[callee] = sf
				}
			}
			fn := spkg.Func(h.Name)
			if fn == nil {
				fatalf("harness %s not found in %s", h.Name, u.Dir)
			}
			x := &engine.Explorer{Prog: l.prog, Cfg: cfg, SolverBin: *solver, SolverArgs: solverArgs, Workers: *workers,
				MaxPaths: get("max_paths", 200000), Deadline: time.Duration(get("deadline_s", 600)) * time.Second, KeepTranscripts: crossN}
			if *trace {
				x.Workers = 1
			}
			if *engineTape != "" {
				t := &engine.Tape{}
				json.Unmarshal([]byte(mustRead(*engineTape)), t)
				if t.Harness != h.Name {
					continue
				}
				x.StartDecisions = t.Decisions
				x.MaxPaths = 1
				x.Workers = 1
			}
			st := x.Run(fn)
			statsAll = append(statsAll, st)
			fmt.Printf("harness %s: paths=%d ends=%v steps=%d asserts_ok=%d queries(sat=%d unsat=%d unknown=%d) solver=%.1fs wall=%.1fs exhaustive=%v\n",
				h.Name, st.Paths, st.Ends, st.Steps, st.AssertsOK, st.Sat, st.Unsat, st.Unknown, st.SolverSecs, st.Wall, st.Exhaustive)
			for m, c := range st.UnsupportedMsgs {
				fmt.Printf("  unsupported x%d: %s\n", c, m)
			}
			for m, c := range st.BudgetMsgs {
				fmt.Printf("  budget x%d: %s\n", c, m)
			}
			for i, m := range st.Inconclusive {
				if i < 8 {
					fmt.Printf("  inconclusive: %s\n", m)
				}
			}
			for i, m := range st.SolverErrors {
				if i < 5 {
					fmt.Printf("  solver-error: %s\n", m)
				}
			}
			for i, m := range st.InitWarn {
				if i < 5 {
					fmt.Printf("  init-warning: %s\n", m)
				}
			}
			for _, v := range st.Violations {
				pend = append(pend, pending{"violation", v.Label, v.Tape, h, v.Msg})
			}
			for _, k := range st.Knowns {
				pend = append(pend, pending{"known", k.Label, k.Tape, h, k.Msg})
			}
			// limit cover replays: required covers first, then a few others
			labels := []string{}
			for lb := range st.Covers {
				labels = append(labels, lb)
			}
			sort.Strings(labels)
			required := map[string]bool{}
			for _, want := range h.Covers {
				required[want] = true
			}
			// every cover the spec requires is replayed; other cover points up to the limit
			nc := 0
			for _, lb := range labels {
				if required[lb] {
					pend = append(pend, pending{"cover", lb, st.Covers[lb], h, ""})
					nc++
				}
			}
			for _, lb := range labels {
				if required[lb] {
					continue
				}
				if nc >= get("cover_replays", 12) {
					break
				}
				pend = append(pend, pending{"cover", lb, st.Covers[lb], h, ""})
				nc++
			}
			for _, want := range h.Covers {
				if _, ok := st.Covers[want]; !ok {
					ev.Vacuous = append(ev.Vacuous, h.Name+":"+want)
				}
			}
			if h.Watchdog != "" {
				watchdog = h.Watchdog
			}
			// cross-check recorded transcripts with the other solvers
			for _, tr := range st.Transcripts {
				ev.crossCheck(tr)
			}
		}
	}

	// native replay of witnesses and counterexamples
	names := map[*engine.Tape]string{}
	for i, p := range pend {
		if p.tape == nil {
			continue
		}
		if p.h.Replay == "engine" {
			continue
		}
		n := fmt.Sprintf("%s-%03d-%s", p.kind, i, tapeHash(p.tape))
		names[p.tape] = n
		allTapes[n] = p.tape
	}
	var rres map[string]*replayResult
	rmsg := ""
	if !*noReplay {
		rres, rmsg = nativeReplay(spec, l, allTapes, watchdog)
		if rmsg != "" {
			fmt.Println("replay: " + rmsg)
			ev.Notes = append(ev.Notes, rmsg)
		}
	}
	validated := 0
	disagree := 0
	knownPrinted := map[string]bool{}
	for _, p := range pend {
		var rr *replayResult
		if n, ok := names[p.tape]; ok && rres != nil {
			rr = rres[n]
		}
		engineOnly := p.h.Replay == "engine"
		if rr != nil && rr.Panic != "" && (strings.Contains(rr.Panic, "wait already in progress") || strings.HasPrefix(rr.Panic, "verif:")) {
			// a panic of the replay machinery itself (not of the code under test) proves nothing
			// about the property: the replay counts as not reproduced
			rr.Mismatch = "replay infrastructure panic: " + rr.Panic
			rr.Panic = ""
		}
		switch p.kind {
		case "cover":
			ok := false
			if rr != nil {
				for _, c := range rr.Covers {
					if c == p.label {
						ok = true
					}
				}
			}
			nativeFails := rr != nil && !engineOnly && rr.Mismatch == "" && !rr.Assume && (strings.HasPrefix(rr.Failed, spec.Property+".") || rr.Panic != "") && !strings.Contains(rr.Failed, ".setup")
			if ok && !nativeFails {
				validated++
			} else if nativeFails {
				// the real code, run natively on the engine's witness input, fails one of the
				// property's assertions (or panics) although the engine's path passed: the concrete
				// run is the ground truth (an environment model was more forgiving than reality)
				what := rr.Failed
				if what == "" {
					what = "panic " + rr.Panic
				}
				path := saveTape(spec.Property, "", p.tape)
				fmt.Printf("VIOLATION property=%s replay=%s\n", spec.Property, path)
				fmt.Printf("  harness=%s assertion=%s (found by the native replay of the engine's witness for %s; not predicted by the engine's models)\n", p.h.Name, what, p.label)
				nViol++
				exitCode = 1
			} else if rr != nil && !engineOnly {
				disagree++
				fmt.Printf("ENGINE-DISAGREE property=%s cover %s/%s not reproduced natively: %s\n", spec.Property, p.h.Name, p.label, rrString(rr))
				saveTape(spec.Property, "_disagree", p.tape)
			}
			ev.addSample(p.kind, p.h.Name, p.label, p.tape, rr)
		case "violation", "known":
			confirmed := false
			how := ""
			if engineOnly || *noReplay {
				confirmed = true
				how = "engine"
			} else if rr != nil {
				switch {
				case p.tape.Label == "panic" && (rr.Panic != "" || rr.Crash):
					confirmed, how = true, "native panic: "+rr.Panic
				case rr.Failed == p.tape.Label:
					confirmed, how = true, "native assertion "+rr.Failed
				case (p.tape.Label == "nontermination" || p.tape.Label == "deadlock") && rr.Timeout:
					confirmed, how = true, "native watchdog timeout"
				case rr.Mismatch == "" && !rr.Assume && strings.HasPrefix(rr.Failed, spec.Property+".") && !strings.Contains(rr.Failed, ".setup"):
					// the native run of the engine's counterexample fails another assertion of the
					// property (earlier or later than the one the engine stopped at): the real code
					// violates the property on this input either way
					confirmed, how = true, "native assertion "+rr.Failed+" (the engine stopped at "+p.tape.Label+")"
				case rr.Mismatch == "" && !rr.Assume && rr.Panic != "" && !strings.Contains(p.tape.Label, ".setup"):
					confirmed, how = true, "native panic: "+rr.Panic+" (the engine stopped at "+p.tape.Label+")"
				case p.h.Replay == "engine-on-hang" && rr.Failed == "" && rr.Panic == "" && rr.Mismatch == "" && !rr.Assume && !rr.Done:
					// the counterexample's schedule parks one harness thread while another blocks on a
					// synchronisation object inside the code under test (the native baton cannot hand
					// over from a goroutine blocked in the runtime): the native run hangs at exactly that
					// point instead of finishing cleanly; the engine's verdict stands (stated in the spec)
					confirmed, how = true, "engine (the native replay blocks inside the code under test on this schedule)"
				case strings.HasSuffix(p.tape.Label, "nothing_running") && rr.Leftover != "" && rr.Failed == "":
					// inside a synctest bubble leftover goroutines show as the bubble's deadlock panic
					confirmed, how = true, "native: "+rr.Leftover
				}
			}
			if !confirmed {
				disagree++
				fmt.Printf("ENGINE-DISAGREE property=%s %s %s/%s not reproduced natively: %s\n", spec.Property, p.kind, p.h.Name, p.label, rrString(rr))
				saveTape(spec.Property, "_disagree", p.tape)
				continue
			}
			validated++
			if p.kind == "known" {
				if knownPrinted[p.label] {
					continue
				}
				knownPrinted[p.label] = true
				fmt.Printf("KNOWN-FINDING: property=%s %s (%s; %s; confirmed by %s)\n", spec.Property, knownWhat[p.label], p.label, p.msg, how)
				ev.Known = append(ev.Known, p.label)
			} else {
				path := saveTape(spec.Property, "", p.tape)
				fmt.Printf("VIOLATION property=%s replay=%s\n", spec.Property, path)
				fmt.Printf("  harness=%s assertion=%s %s (confirmed by %s)\n", p.h.Name, p.label, p.msg, how)
				nViol++
				exitCode = 1
			}
			ev.addSample(p.kind, p.h.Name, p.label, p.tape, rr)
		}
	}
	ev.fill(statsAll, validated, disagree, loadSecs)
	ev.Violations = nViol
	ev.finish(t0, *noEvidence, nViol)
	if nViol == 0 {
		status := "holds within bounds"
		if !ev.Exhaustive {
			status = "no violation found; exploration NOT exhaustive (see evidence)"
		}
		fmt.Printf("RESULT property=%s tier=%s %s; paths=%d validated_replays=%d wall=%.1fs\n", spec.Property, *tier, status, ev.Paths, validated, time.Since(t0).Seconds())
	}
	return exitCode
}

func rrString(r *replayResult) string {
	if r == nil {
		return "no native result"
	}
	b, _ := json.Marshal(r)
	return string(b)
}

func saveTape(prop, sub string, t *engine.Tape) string {
	dir := filepath.Join(verifRoot, "replays", prop)
	if sub != "" {
		dir = filepath.Join(verifRoot, "replays", sub, prop)
	}
	os.MkdirAll(dir, 0o755)
	p := filepath.Join(dir, tapeHash(t)+".json")
	b, _ := json.MarshalIndent(t, "", " ")
	os.WriteFile(p, b, 0o644)
	return p
}

func flagSet(fs *flag.FlagSet, name string) bool {
	found := false
	fs.Visit(func(f *flag.Flag) {
		if f.Name == name {
			found = true
		}
	})
	return found
}

// cmdReplay replays a single tape against the native build and prints the outcome.
func cmdReplay(prop, path string) int {
	spec := &Spec{}
	if err := json.Unmarshal([]byte(mustRead(filepath.Join(verifRoot, "harness", prop, "spec.json"))), spec); err != nil {
		fatalf("spec: %v", err)
	}
	l := load(spec)
	if len(l.errs) > 0 {
		fmt.Printf("INCONCLUSIVE property=%s harness does not load: %s\n", prop, strings.Join(l.errs, "; "))
		return 0
	}
	t := &engine.Tape{}
	if err := json.Unmarshal([]byte(mustRead(path)), t); err != nil {
		fatalf("tape: %v", err)
	}
	wd := ""
	for _, u := range spec.Units {
		for _, h := range u.Harnesses {
			if h.Name == t.Harness && h.Watchdog != "" {
				wd = h.Watchdog
			}
		}
	}
	res, msg := nativeReplay(spec, l, map[string]*engine.Tape{"tape": t}, wd)
	if msg != "" {
		fmt.Println(msg)
	}
	r := res["tape"]
	fmt.Printf("tape %s: harness=%s label=%s kind=%s\nnative result: %s\n", path, t.Harness, t.Label, t.Kind, rrString(r))
	if r != nil && (r.Failed == t.Label || (t.Label == "panic" && (r.Panic != "" || r.Crash)) || ((t.Label == "nontermination" || t.Label == "deadlock") && r.Timeout)) {
		fmt.Printf("VIOLATION property=%s replay=%s\n", prop, path)
		return 1
	}
	return 0
}
