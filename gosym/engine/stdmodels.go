package engine

import (
	"fmt"
	"go/types"
	"strings"
)

// ---- time ---------------------------------------------------------------------------
//
// time.Time is kept as its real 3-field struct but with a private encoding:
// wall = 1 if the value carries a monotonic clock reading (it came from time.Now, possibly
// through Add/UTC/Local/In) and 0 otherwise (built from numbers, rounded, or decoded from JSON -
// which is what makes `==` on a Time differ from Equal in real Go), ext = nanoseconds on the
// engine's clock (BV64, signed), loc = nil.
// The zero Time (ext == 0) is the Go zero time. time.Now() returns a fresh,
// non-decreasing value >= 2^60 unless the harness pinned the clock.

const clockBase = uint64(1) << 60

func (e *Engine) mkTime(ns *Term) Value {
	return &Backing{E: []Value{e.tb.Const(64, 0), ns, Ptr{}}}
}

// mkTimeLike builds a time with the monotonic flag of src.
func (e *Engine) mkTimeLike(src Value, ns *Term) Value {
	var w Value = e.tb.Const(64, 0)
	switch x := src.(type) {
	case *Backing:
		w = x.E[0]
	case Ptr:
		w = x.B.E[x.I].(*Backing).E[0]
	}
	return &Backing{E: []Value{w, ns, Ptr{}}}
}

func (e *Engine) mkTimeNow() Value {
	return &Backing{E: []Value{e.tb.Const(64, 1), e.clockNow(), Ptr{}}}
}

func (e *Engine) timeNS(v Value) *Term {
	switch x := v.(type) {
	case *Backing:
		return x.E[1].(*Term)
	case Ptr:
		return x.B.E[x.I].(*Backing).E[1].(*Term)
	}
	panic(e.unsupported(fmt.Sprintf("time value %T", v)))
}

func (e *Engine) clockNow() *Term {
	if e.now == nil {
		e.now = e.tb.Const(64, clockBase)
	}
	if e.clockPinned {
		return e.now
	}
	t := e.freshInternal("now", BV(64))
	e.Assume(e.tb.And(e.tb.Cmp(OpSle, e.now, t), e.tb.Cmp(OpSle, t, e.tb.Const(64, clockBase*2))))
	e.now = t
	return t
}

func registerTime(reg func(string, intercept), nop intercept) {
	reg("time.Now", func(e *Engine, fr *frame, a []Value) Value { return e.mkTimeNow() })
	reg("time.Since", func(e *Engine, fr *frame, a []Value) Value {
		return e.tb.Bin(OpSub, e.clockNow(), e.timeNS(a[0]))
	})
	reg("time.Until", func(e *Engine, fr *frame, a []Value) Value {
		return e.tb.Bin(OpSub, e.timeNS(a[0]), e.clockNow())
	})
	reg("(time.Time).Sub", func(e *Engine, fr *frame, a []Value) Value {
		return e.tb.Bin(OpSub, e.timeNS(a[0]), e.timeNS(a[1]))
	})
	reg("(time.Time).Add", func(e *Engine, fr *frame, a []Value) Value {
		return e.mkTimeLike(a[0], e.tb.Bin(OpAdd, e.timeNS(a[0]), a[1].(*Term)))
	})
	reg("(time.Time).After", func(e *Engine, fr *frame, a []Value) Value {
		return e.tb.Cmp(OpSlt, e.timeNS(a[1]), e.timeNS(a[0]))
	})
	reg("(time.Time).Before", func(e *Engine, fr *frame, a []Value) Value {
		return e.tb.Cmp(OpSlt, e.timeNS(a[0]), e.timeNS(a[1]))
	})
	reg("(time.Time).Equal", func(e *Engine, fr *frame, a []Value) Value {
		return e.tb.Eq(e.timeNS(a[0]), e.timeNS(a[1]))
	})
	reg("(time.Time).Compare", func(e *Engine, fr *frame, a []Value) Value {
		x, y := e.timeNS(a[0]), e.timeNS(a[1])
		return e.tb.Ite(e.tb.Cmp(OpSlt, x, y), e.tb.Const(64, ^uint64(0)), e.tb.Ite(e.tb.Eq(x, y), e.tb.Const(64, 0), e.tb.Const(64, 1)))
	})
	reg("(time.Time).IsZero", func(e *Engine, fr *frame, a []Value) Value {
		return e.tb.Eq(e.timeNS(a[0]), e.tb.Const(64, 0))
	})
	reg("(time.Time).UnixNano", func(e *Engine, fr *frame, a []Value) Value { return e.timeNS(a[0]) })
	reg("(time.Time).Unix", func(e *Engine, fr *frame, a []Value) Value {
		return e.tb.Bin(OpSDiv, e.timeNS(a[0]), e.tb.Const(64, 1000000000))
	})
	reg("(time.Time).UnixMilli", func(e *Engine, fr *frame, a []Value) Value {
		return e.tb.Bin(OpSDiv, e.timeNS(a[0]), e.tb.Const(64, 1000000))
	})
	reg("(time.Time).UnixMicro", func(e *Engine, fr *frame, a []Value) Value {
		return e.tb.Bin(OpSDiv, e.timeNS(a[0]), e.tb.Const(64, 1000))
	})
	reg("time.Unix", func(e *Engine, fr *frame, a []Value) Value {
		return e.mkTime(e.tb.Bin(OpAdd, e.tb.Bin(OpMul, a[0].(*Term), e.tb.Const(64, 1000000000)), a[1].(*Term)))
	})
	reg("time.UnixMilli", func(e *Engine, fr *frame, a []Value) Value {
		return e.mkTime(e.tb.Bin(OpMul, a[0].(*Term), e.tb.Const(64, 1000000)))
	})
	reg("(time.Time).UTC (time.Time).Local (time.Time).In", func(e *Engine, fr *frame, a []Value) Value {
		return e.mkTimeLike(a[0], e.timeNS(a[0]))
	})
	reg("(time.Time).Round (time.Time).Truncate", func(e *Engine, fr *frame, a []Value) Value {
		return e.mkTime(e.timeNS(a[0])) // strips the monotonic reading
	})
	reg("(time.Time).Format (time.Time).String", func(e *Engine, fr *frame, a []Value) Value {
		ns := e.timeNS(a[0])
		if ns.IsConst() {
			return Str{S: fmt.Sprintf("T%d", ns.C)}
		}
		return Str{S: "T<sym>"}
	})
	reg("(time.Duration).String", func(e *Engine, fr *frame, a []Value) Value {
		d := a[0].(*Term)
		if d.IsConst() {
			return Str{S: fmt.Sprintf("%dns", int64(d.C))}
		}
		return Str{S: "<dur>"}
	})
	reg("(time.Duration).Seconds", func(e *Engine, fr *frame, a []Value) Value {
		d := e.concInt(a[0].(*Term), "Duration.Seconds")
		return float64(d) / 1e9
	})
	reg("(time.Duration).Minutes", func(e *Engine, fr *frame, a []Value) Value {
		d := e.concInt(a[0].(*Term), "Duration.Minutes")
		return float64(d) / 6e10
	})
	reg("(time.Duration).Hours", func(e *Engine, fr *frame, a []Value) Value {
		d := e.concInt(a[0].(*Term), "Duration.Hours")
		return float64(d) / 3.6e12
	})
	reg("(time.Duration).Milliseconds", func(e *Engine, fr *frame, a []Value) Value {
		return e.tb.Bin(OpSDiv, a[0].(*Term), e.tb.Const(64, 1000000))
	})
	var sleepExact func(e *Engine, d *Term) bool
	reg("time.Sleep", func(e *Engine, fr *frame, a []Value) Value {
		if sleepExact != nil && sleepExact(e, a[0].(*Term)) {
			return nil
		}
		if !e.clockPinned {
			// the clock advances by at least d
			if e.now == nil {
				e.now = e.tb.Const(64, clockBase)
			}
			e.now = e.tb.Bin(OpAdd, e.now, a[0].(*Term))
		} else if e.now != nil && e.liveThreads() == 1 {
			// pinned clock with a symbolic instant or duration, and nobody else to run meanwhile:
			// the sleeper is the only thread, so the clock simply moves on by d (what the runtime
			// does, and what the native fake clock does)
			e.now = e.tb.Bin(OpAdd, e.now, a[0].(*Term))
			return nil
		}
		e.Yield()
		return nil
	})
	mkTimerChan := func(e *Engine, d *Term, periodic bool) *ChanObj {
		pkg := e.prog.ImportedPackage("time")
		tt := pkg.Type("Time").Object().Type()
		n := 1
		if v, ok := e.cfg.Bounds["ticks"]; ok {
			n = v
		}
		c := &ChanObj{Cap: 1, ElemT: tt, Timer: true, Fires: n}
		if e.clockPinned && e.now != nil && d != nil {
			c.Next = e.subst(e.tb.Bin(OpAdd, e.now, d))
			if periodic {
				c.Period = d
			}
		}
		e.timers = append(e.timers, c)
		return c
	}
	// exact clock: Sleep(d) parks the thread until the clock has reached now+d (other threads
	// run meanwhile; when everything is blocked the clock jumps, see advanceIdle)
	sleepExact = func(e *Engine, d *Term) bool {
		if !e.clockPinned || e.now == nil || !e.subst(e.now).IsConst() || !e.subst(d).IsConst() {
			return false
		}
		if sext64(e.subst(d).C, 64) <= 0 {
			e.Yield()
			return true
		}
		c := mkTimerChan(e, e.subst(d), false)
		e.Block(func() bool { return e.timerReady(c) }, "time.Sleep")
		c.Timer = false
		return true
	}
	reg("time.After time.Tick", func(e *Engine, fr *frame, a []Value) Value {
		return mkTimerChan(e, a[0].(*Term), fr.fn.Name() == "Tick")
	})
	reg("time.NewTimer time.NewTicker", func(e *Engine, fr *frame, a []Value) Value {
		// struct { C <-chan Time; ... }: allocate zero struct and set field 0
		rt := mustDeref(fr.fn.Signature.Results().At(0).Type())
		sb := e.zero(rt).(*Backing)
		sb.E[0] = mkTimerChan(e, a[0].(*Term), fr.fn.Name() == "NewTicker")
		return Ptr{B: &Backing{E: []Value{sb}}}
	})
	reg("(*time.Timer).Stop (*time.Timer).Reset", func(e *Engine, fr *frame, a []Value) Value {
		if strings.HasSuffix(fr.fn.Name(), "Stop") {
			p := a[0].(Ptr)
			if c, ok := p.B.E[p.I].(*Backing).E[0].(*ChanObj); ok && c != nil && !e.keepTimers {
				c.Timer = false // stopped timers never fire
			}
		} else {
			p := a[0].(Ptr)
			if c, ok := p.B.E[p.I].(*Backing).E[0].(*ChanObj); ok && c != nil {
				c.Timer = true
				if c.Fires == 0 {
					c.Fires = 1
				}
			}
		}
		return e.tb.True
	})
	reg("(*time.Ticker).Stop", func(e *Engine, fr *frame, a []Value) Value {
		p := a[0].(Ptr)
		if c, ok := p.B.E[p.I].(*Backing).E[0].(*ChanObj); ok && c != nil {
			c.Timer = false
		}
		return nil
	})
	reg("(*time.Ticker).Reset", nop)
	reg("time.AfterFunc", func(e *Engine, fr *frame, a []Value) Value {
		// the callback may run at any later scheduling point, or never (if stopped)
		rt := mustDeref(fr.fn.Signature.Results().At(0).Type())
		sb := e.zero(rt).(*Backing)
		fn := a[1]
		tp := Ptr{B: &Backing{E: []Value{sb}}}
		if e.cfg.Bounds["afterfunc_fires"] != 0 {
			e.Spawn("AfterFunc", func(t *Thread) { e.call(nil, t, fn, nil, 0) })
		} else if d, ok := a[0].(*Term); ok && e.clockPinned && e.now != nil && e.subst(e.now).IsConst() && e.subst(d).IsConst() {
			// exact clock: the callback runs when the clock reaches now+d, unless stopped first
			// (the channel is parked in the unused C field so that Timer.Stop finds it)
			c := mkTimerChan(e, e.subst(d), false)
			sb.E[0] = c
			e.Spawn("AfterFunc", func(t *Thread) {
				e.Block(func() bool { return !c.Timer || e.timerReady(c) }, "AfterFunc timer")
				if !c.Timer {
					return
				}
				e.timerFired(c)
				e.call(nil, t, fn, nil, 0)
			})
		}
		return tp
	})
}

// ---- encoding/json -----------------------------------------------------------------------
//
// Marshal(v) yields an opaque blob carrying a deep snapshot of v; Unmarshal of the
// same blob restores the snapshot into a value of identical type. Anything else is
// unsupported (hostile JSON text is modelled by harnesses, not here).

func (e *Engine) deepSnap(v Value, depth int) Value {
	if depth > 12 {
		panic(e.unsupported("json snapshot too deep"))
	}
	switch x := v.(type) {
	case *Backing:
		if x == nil {
			return x
		}
		nb := &Backing{E: make([]Value, len(x.E)), Tag: x.Tag}
		for i, f := range x.E {
			nb.E[i] = e.deepSnap(f, depth+1)
		}
		return nb
	case Ptr:
		if x.B == nil {
			return x
		}
		x = e.concPtr(x)
		return Ptr{B: &Backing{E: []Value{e.deepSnap(x.B.E[x.I], depth+1)}}}
	case Slice:
		if x.B == nil {
			return x
		}
		nb := &Backing{E: make([]Value, x.Len), Tag: x.B.Tag}
		for i := 0; i < x.Len; i++ {
			nb.E[i] = e.deepSnap(x.B.E[x.Off+i], depth+1)
		}
		return Slice{B: nb, Len: x.Len, Cap: x.Len}
	case *MapObj:
		if x == nil {
			return x
		}
		nm := &MapObj{KeyT: x.KeyT}
		for _, en := range x.Ent {
			nm.Ent = append(nm.Ent, &mapEntry{K: e.deepSnap(en.K, depth+1), V: e.deepSnap(en.V, depth+1)})
		}
		return nm
	case Iface:
		if x.T == nil {
			return x
		}
		return Iface{T: x.T, V: e.deepSnap(x.V, depth+1)}
	}
	return v
}

func registerJSON(reg func(string, intercept), nop intercept) {
	reg("encoding/json.Marshal encoding/json.MarshalIndent", func(e *Engine, fr *frame, a []Value) Value {
		v := a[0].(Iface)
		e.nblob++
		blob := &Blob{ID: e.nblob, T: v.T}
		if v.T != nil {
			blob.Snap = e.deepSnap(v.V, 0)
		}
		if e.blobs == nil {
			e.blobs = map[int]*Blob{}
		}
		e.blobs[blob.ID] = blob
		txt := fmt.Sprintf("{\"#blob\":%d}", blob.ID)
		s := e.mkConcByteSlice([]byte(txt))
		s.B.Tag = blob
		return Tuple{s, Iface{}}
	})
	reg("encoding/json.Unmarshal", func(e *Engine, fr *frame, a []Value) Value {
		data := a[0].(Slice)
		dst := a[1].(Iface)
		var blob *Blob
		if data.B != nil && data.Off == 0 && data.Len == len(data.B.E) {
			blob = data.B.Tag
		}
		if blob == nil && data.B != nil {
			// the placeholder text survives byte-wise copying: recover the blob by id
			txt := e.normStr(e.sliceTerms(data), nil)
			if txt.IsConc() {
				var id int
				if _, err := fmt.Sscanf(txt.S, "{\"#blob\":%d}", &id); err == nil {
					blob = e.blobs[id]
				}
			}
		}
		var tree *jnode
		if blob == nil && data.B != nil {
			// concrete JSON text (literals, hand-written bodies): parse it for real
			if txt := e.normStr(e.sliceTerms(data), nil); txt.IsConc() {
				if tree = e.jsonParseText(txt.S); tree == nil && e.jsonHavoc == nil {
					return e.mkError("invalid character in JSON text")
				}
			}
		}
		if blob == nil && tree == nil {
			if h := e.jsonHavoc; h != nil {
				return h(e, fr, data, dst)
			}
			return jsonDefaultHavoc(e, fr, data, dst)
		}
		if dst.T == nil {
			return e.mkError("json: Unmarshal(nil)")
		}
		pt, ok := dst.T.Underlying().(*types.Pointer)
		if !ok {
			return e.mkError("json: Unmarshal(non-pointer)")
		}
		p := dst.V.(Ptr)
		if p.B == nil {
			return e.mkError("json: Unmarshal(nil pointer)")
		}
		want := pt.Elem()
		if tree == nil && blob.T == nil {
			tree = e.blobTree(blob)
		}
		if tree != nil {
			return e.jsonUnmarshalTree(tree, p, want)
		}
		src := blob.T
		snap := blob.Snap
		// Marshal(&x) and Marshal(x) encode the same
		if sp, isP := src.Underlying().(*types.Pointer); isP && !types.Identical(src, want) {
			sv := snap.(Ptr)
			if sv.B == nil {
				panic(e.unsupported("json round trip of nil pointer"))
			}
			src = sp.Elem()
			snap = sv.B.E[sv.I]
		}
		if wp, isP := want.Underlying().(*types.Pointer); isP && !types.Identical(src, want) && types.Identical(wp.Elem(), src) {
			// Unmarshal into **T
			e.store(p, Ptr{B: &Backing{E: []Value{e.deepSnap(snap, 0)}}})
			return Iface{}
		}
		if !types.Identical(src, want) {
			if types.Identical(src.Underlying(), want.Underlying()) {
				e.store(p, e.deepSnap(snap, 0))
				return Iface{}
			}
			return e.jsonUnmarshalTree(e.blobTree(blob), p, want)
		}
		if e.cfg.Bounds["json_identity"] != 0 {
			// bound json_identity=1: Marshal then Unmarshal into the same type is the identity
			// (cheaper; forgets what the text does not carry - unexported and "-" fields, the
			// monotonic clock reading of times, nil-ness of empty containers)
			e.store(p, e.deepSnap(snap, 0))
			return Iface{}
		}
		return e.jsonUnmarshalTree(e.blobTree(blob), p, want)
	})
}

// ---- sync.Map -------------------------------------------------------------------------------

func (e *Engine) syncMapFor(p Ptr) *MapObj {
	if e.syncMaps == nil {
		e.syncMaps = map[*Backing]map[int]*MapObj{}
	}
	m := e.syncMaps[p.B]
	if m == nil {
		m = map[int]*MapObj{}
		e.syncMaps[p.B] = m
	}
	if m[p.I] == nil {
		m[p.I] = &MapObj{}
	}
	return m[p.I]
}

func registerSyncMap(reg func(string, intercept), nop intercept) {
	reg("(*sync.Map).Load", func(e *Engine, fr *frame, a []Value) Value {
		e.Yield()
		en := e.mapFind(e.syncMapFor(a[0].(Ptr)), a[1])
		if en == nil {
			return Tuple{Iface{}, e.tb.False}
		}
		return Tuple{en.V, e.tb.True}
	})
	reg("(*sync.Map).Store", func(e *Engine, fr *frame, a []Value) Value {
		e.Yield()
		e.mapSet(e.syncMapFor(a[0].(Ptr)), a[1], a[2])
		return nil
	})
	reg("(*sync.Map).LoadOrStore", func(e *Engine, fr *frame, a []Value) Value {
		e.Yield()
		m := e.syncMapFor(a[0].(Ptr))
		if en := e.mapFind(m, a[1]); en != nil {
			return Tuple{en.V, e.tb.True}
		}
		m.Ent = append(m.Ent, &mapEntry{K: a[1], V: a[2]})
		return Tuple{a[2], e.tb.False}
	})
	reg("(*sync.Map).LoadAndDelete", func(e *Engine, fr *frame, a []Value) Value {
		e.Yield()
		m := e.syncMapFor(a[0].(Ptr))
		en := e.mapFind(m, a[1])
		if en == nil {
			return Tuple{Iface{}, e.tb.False}
		}
		for i, x := range m.Ent {
			if x == en {
				m.Ent = append(m.Ent[:i:i], m.Ent[i+1:]...)
				break
			}
		}
		return Tuple{en.V, e.tb.True}
	})
	reg("(*sync.Map).Delete", func(e *Engine, fr *frame, a []Value) Value {
		e.Yield()
		e.mapDelete(e.syncMapFor(a[0].(Ptr)), a[1])
		return nil
	})
	reg("(*sync.Map).Swap", func(e *Engine, fr *frame, a []Value) Value {
		e.Yield()
		m := e.syncMapFor(a[0].(Ptr))
		if en := e.mapFind(m, a[1]); en != nil {
			old := en.V
			en.V = a[2]
			return Tuple{old, e.tb.True}
		}
		m.Ent = append(m.Ent, &mapEntry{K: a[1], V: a[2]})
		return Tuple{Iface{}, e.tb.False}
	})
	reg("(*sync.Map).CompareAndSwap", func(e *Engine, fr *frame, a []Value) Value {
		e.Yield()
		m := e.syncMapFor(a[0].(Ptr))
		if en := e.mapFind(m, a[1]); en != nil && e.Branch(e.eqVal(en.V, a[2])) {
			en.V = a[3]
			return e.tb.True
		}
		return e.tb.False
	})
	reg("(*sync.Map).CompareAndDelete", func(e *Engine, fr *frame, a []Value) Value {
		e.Yield()
		m := e.syncMapFor(a[0].(Ptr))
		if en := e.mapFind(m, a[1]); en != nil && e.Branch(e.eqVal(en.V, a[2])) {
			e.mapDelete(m, a[1])
			return e.tb.True
		}
		return e.tb.False
	})
	reg("(*sync.Map).Range", func(e *Engine, fr *frame, a []Value) Value {
		e.Yield()
		m := e.syncMapFor(a[0].(Ptr))
		ents := append([]*mapEntry{}, m.Ent...)
		for _, en := range ents {
			r := e.call(fr, fr.th, a[1], []Value{en.K, en.V}, 0).(*Term)
			if !e.Branch(r) {
				break
			}
		}
		return nil
	})
	reg("(*sync.Map).Clear", func(e *Engine, fr *frame, a []Value) Value {
		e.syncMapFor(a[0].(Ptr)).Ent = nil
		return nil
	})
}

// ---- net.IP <-> string as an injective pair ---------------------------------------------
//
// (net.IP).String() of symbolic address bytes yields a Str that remembers the
// bytes (Str.IP); its visible characters are an injective hex rendering, so
// equality between two such strings is exactly equality of the address bytes.
// net.ParseIP of such a string returns the bytes. Concrete addresses use the real
// functions (executed from SSA).

func (e *Engine) ipStrEq(a, b Str) *Term {
	if a.IP != nil && b.IP != nil {
		x, y := ipCanon(e, a.IP), ipCanon(e, b.IP)
		r := e.tb.True
		for i := range x {
			r = e.tb.And(r, e.tb.Eq(x[i], y[i]))
		}
		return r
	}
	// one side is the text of symbolic address bytes, the other an ordinary string: they can only
	// be equal if the ordinary string has the length of some address text ("0.0.0.0" ..
	// "255.255.255.255" for 4 bytes, "::" .. the longest IPv6/mapped form for 16)
	ip, other := a, b
	if ip.IP == nil {
		ip, other = b, a
	}
	lo, hi := 7, 15
	if len(ip.IP) == 16 {
		lo, hi = 2, 45
	}
	if n := other.Len(); n < lo || n > hi {
		return e.tb.False
	}
	panic(e.unsupported("comparison of a symbolic IP string with a non-IP string of a plausible length"))
}

// ipCanon maps 4-byte addresses to their 16-byte v4-in-v6 form (as net.IP equality does).
func ipCanon(e *Engine, b []*Term) []*Term {
	if len(b) == 16 {
		return b
	}
	r := make([]*Term, 16)
	for i := 0; i < 10; i++ {
		r[i] = e.tb.Const(8, 0)
	}
	r[10], r[11] = e.tb.Const(8, 0xff), e.tb.Const(8, 0xff)
	copy(r[12:], b)
	return r
}

func init() {
	intercepts["(net.IP).String"] = func(e *Engine, fr *frame, a []Value) Value {
		s := a[0].(Slice)
		if s.Len != 4 && s.Len != 16 {
			if s.Len == 0 {
				return Str{S: "<nil>"}
			}
			return Str{S: "?invalid-ip"}
		}
		bs := e.sliceTerms(s)
		all := true
		for _, b := range bs {
			if !b.IsConst() {
				all = false
			}
		}
		if all {
			raw := make([]byte, len(bs))
			for i, b := range bs {
				raw[i] = byte(b.C)
			}
			return Str{S: netIPString(raw)}
		}
		hex := func(n *Term) *Term {
			lt := e.tb.Cmp(OpUlt, n, e.tb.Const(8, 10))
			return e.tb.Ite(lt, e.tb.Bin(OpAdd, n, e.tb.Const(8, '0')), e.tb.Bin(OpAdd, n, e.tb.Const(8, 'a'-10)))
		}
		out := []*Term{e.tb.Const(8, 'i'), e.tb.Const(8, 'p'), e.tb.Const(8, uint64('0'+len(bs)/4)), e.tb.Const(8, '~')}
		for _, b := range bs {
			out = append(out, hex(e.tb.Bin(OpLShr, b, e.tb.Const(8, 4))), hex(e.tb.Bin(OpBAnd, b, e.tb.Const(8, 15))))
		}
		return Str{Sym: out, IP: bs}
	}
	intercepts["net.ParseIP"] = func(e *Engine, fr *frame, a []Value) Value {
		s := a[0].(Str)
		if s.IP != nil {
			return e.mkByteSlice(ipCanon(e, s.IP))
		}
		if s.IsConc() {
			ip := netParseIP(s.S)
			if ip == nil {
				return Slice{}
			}
			return e.mkConcByteSlice(ip)
		}
		// symbolic host name: decide "looks like an IP literal" conservatively by
		// case-splitting on the characters that every IP literal needs.
		anySep := e.tb.False
		for _, b := range s.Sym {
			anySep = e.tb.Or(anySep, e.tb.Or(e.tb.Eq(b, e.tb.Const(8, '.')), e.tb.Eq(b, e.tb.Const(8, ':'))))
		}
		if !e.Branch(anySep) {
			return Slice{} // no '.' and no ':' => not an IP literal
		}
		str := e.concStr(s, "ParseIP argument")
		ip := netParseIP(str)
		if ip == nil {
			return Slice{}
		}
		return e.mkConcByteSlice(ip)
	}
}

// net.ParseCIDR of a concrete string: the real parser (it goes through net/netip, whose interned
// zone handles the engine does not model); the result is an ordinary *net.IPNet value, so
// (*IPNet).Contains runs from SSA - also on symbolic addresses.
func init() {
	intercepts["net.ParseCIDR"] = func(e *Engine, fr *frame, a []Value) Value {
		s := a[0].(Str)
		if !s.IsConc() {
			panic(e.unsupported("net.ParseCIDR of a symbolic string"))
		}
		ip, nip, mask, err := netParseCIDR(s.S)
		if err != nil {
			return Tuple{Slice{}, Ptr{}, e.mkError(err.Error())}
		}
		obj := &Backing{E: []Value{e.mkConcByteSlice(nip), e.mkConcByteSlice(mask)}}
		return Tuple{e.mkConcByteSlice(ip), Ptr{B: &Backing{E: []Value{obj}}}, Iface{}}
	}
}

// ---- compress/gzip as an invertible pair ---------------------------------------------------
//
// Writer: buffers everything; Close emits one member  1f 8b | len32 | data  to the
// underlying writer. Reader: parses that member and yields data. DEFLATE itself is
// outside the claim; ordering/framing bugs around the codec are still visible.
// Hostile mode (Bounds["gzip_hostile"]=1): a member with valid magic inflates to
// len32 ARBITRARY bytes regardless of how few input bytes follow (unbounded ratio).

type gzW struct {
	dst    Iface
	buf    []*Term
	closed bool
}

type gzR struct {
	src       Iface
	remaining *Term // BV64 (hostile: symbolic), else concrete
	err       Value
	hostile   bool
	started   bool
}

func (e *Engine) gzKey(p Ptr) *Backing { return p.B.E[p.I].(*Backing) }

func (e *Engine) pkgVarIface(pkg, name string) Value {
	p := e.prog.ImportedPackage(pkg)
	if p == nil {
		panic(e.unsupported("package " + pkg + " not loaded"))
	}
	g := p.Var(name)
	if g == nil {
		panic(e.unsupported("var " + pkg + "." + name))
	}
	return e.load(e.globalPtr(g))
}

func (e *Engine) readFromIface(fr *frame, src Iface, n int) ([]*Term, Value) {
	// reads exactly up to n bytes (looping like io.ReadFull); returns bytes read and error
	var out []*Term
	for len(out) < n {
		tmp := e.mkByteSlice(make([]*Term, 0))
		b := &Backing{E: make([]Value, n-len(out))}
		for i := range b.E {
			b.E[i] = e.tb.Const(8, 0)
		}
		tmp = Slice{B: b, Len: len(b.E), Cap: len(b.E)}
		r, ok := e.callMethod(fr, src, "Read", tmp)
		if !ok {
			panic(e.unsupported("gzip source has no Read"))
		}
		tp := r.(Tuple)
		got := int(e.concInt(tp[0].(*Term), "read count"))
		for i := 0; i < got; i++ {
			out = append(out, b.E[i].(*Term))
		}
		if er := tp[1].(Iface); er.T != nil {
			return out, er
		}
		if got == 0 {
			e.gzSpin++
			if e.gzSpin > 4 {
				panic(e.unsupported("gzip source returns (0,nil) repeatedly"))
			}
		}
	}
	return out, Iface{}
}

func init() {
	writers := func(e *Engine) map[*Backing]*gzW {
		if e.gzWriters == nil {
			e.gzWriters = map[*Backing]*gzW{}
		}
		return e.gzWriters
	}
	readers := func(e *Engine) map[*Backing]*gzR {
		if e.gzReaders == nil {
			e.gzReaders = map[*Backing]*gzR{}
		}
		return e.gzReaders
	}
	newW := func(e *Engine, fr *frame, a []Value) Value {
		rt := mustDeref(fr.fn.Signature.Results().At(0).Type())
		sb := e.zero(rt).(*Backing)
		writers(e)[sb] = &gzW{dst: a[0].(Iface)}
		p := Ptr{B: &Backing{E: []Value{sb}}}
		if fr.fn.Signature.Results().Len() == 2 {
			return Tuple{p, Iface{}}
		}
		return p
	}
	intercepts["compress/gzip.NewWriter"] = newW
	intercepts["compress/gzip.NewWriterLevel"] = newW
	getW := func(e *Engine, p Ptr) *gzW {
		w := writers(e)[e.gzKey(p)]
		if w == nil {
			w = &gzW{}
			writers(e)[e.gzKey(p)] = w
		}
		return w
	}
	intercepts["(*compress/gzip.Writer).Reset"] = func(e *Engine, fr *frame, a []Value) Value {
		w := getW(e, a[0].(Ptr))
		w.dst = a[1].(Iface)
		w.buf = nil
		w.closed = false
		return nil
	}
	intercepts["(*compress/gzip.Writer).Write"] = func(e *Engine, fr *frame, a []Value) Value {
		w := getW(e, a[0].(Ptr))
		if w.closed {
			return Tuple{e.mkInt(0), e.mkError("gzip: write to closed writer")}
		}
		s := a[1].(Slice)
		w.buf = append(w.buf, e.sliceTerms(s)...)
		return Tuple{e.mkInt(int64(s.Len)), Iface{}}
	}
	intercepts["(*compress/gzip.Writer).Flush"] = func(e *Engine, fr *frame, a []Value) Value { return Iface{} }
	intercepts["(*compress/gzip.Writer).Close"] = func(e *Engine, fr *frame, a []Value) Value {
		w := getW(e, a[0].(Ptr))
		if w.closed {
			return Iface{}
		}
		w.closed = true
		n := len(w.buf)
		out := []*Term{e.tb.Const(8, 0x1f), e.tb.Const(8, 0x8b), e.tb.Const(8, uint64(n>>24)), e.tb.Const(8, uint64(n>>16)&0xff), e.tb.Const(8, uint64(n>>8)&0xff), e.tb.Const(8, uint64(n)&0xff)}
		out = append(out, w.buf...)
		if w.dst.T == nil {
			return Iface{}
		}
		r, ok := e.callMethod(fr, w.dst, "Write", e.mkByteSlice(out))
		if !ok {
			panic(e.unsupported("gzip destination has no Write"))
		}
		return r.(Tuple)[1]
	}
	startR := func(e *Engine, fr *frame, r *gzR) Value {
		r.started = true
		r.hostile = e.cfg.Bounds["gzip_hostile"] != 0
		hdr, er := e.readFromIface(fr, r.src, 6)
		if len(hdr) < 6 {
			if len(hdr) == 0 {
				if ei, ok := er.(Iface); ok && ei.T != nil {
					return er
				}
				return e.pkgVarIface("io", "EOF")
			}
			return e.pkgVarIface("io", "ErrUnexpectedEOF")
		}
		okMagic := e.tb.And(e.tb.Eq(hdr[0], e.tb.Const(8, 0x1f)), e.tb.Eq(hdr[1], e.tb.Const(8, 0x8b)))
		if !e.Branch(okMagic) {
			return e.pkgVarIface("compress/gzip", "ErrHeader")
		}
		ln := e.tb.Const(64, 0)
		for i := 2; i < 6; i++ {
			ln = e.tb.Bin(OpBOr, e.tb.Bin(OpShl, ln, e.tb.Const(64, 8)), e.tb.ZExt(hdr[i], 64))
		}
		r.remaining = ln
		return Iface{}
	}
	intercepts["compress/gzip.NewReader"] = func(e *Engine, fr *frame, a []Value) Value {
		rt := mustDeref(fr.fn.Signature.Results().At(0).Type())
		sb := e.zero(rt).(*Backing)
		r := &gzR{src: a[0].(Iface)}
		readers(e)[sb] = r
		er := startR(e, fr, r)
		if ei := er.(Iface); ei.T != nil {
			return Tuple{Ptr{}, er}
		}
		return Tuple{Ptr{B: &Backing{E: []Value{sb}}}, Iface{}}
	}
	intercepts["(*compress/gzip.Reader).Reset"] = func(e *Engine, fr *frame, a []Value) Value {
		r := &gzR{src: a[1].(Iface)}
		readers(e)[e.gzKey(a[0].(Ptr))] = r
		return startR(e, fr, r)
	}
	intercepts["(*compress/gzip.Reader).Close"] = func(e *Engine, fr *frame, a []Value) Value { return Iface{} }
	intercepts["(*compress/gzip.Reader).Multistream"] = func(e *Engine, fr *frame, a []Value) Value { return nil }
	intercepts["(*compress/gzip.Reader).Read"] = func(e *Engine, fr *frame, a []Value) Value {
		r := readers(e)[e.gzKey(a[0].(Ptr))]
		if r == nil {
			panic(e.unsupported("gzip.Reader not created through NewReader"))
		}
		p := a[1].(Slice)
		if p.Len == 0 {
			return Tuple{e.mkInt(0), Iface{}}
		}
		zero := e.tb.Eq(r.remaining, e.tb.Const(64, 0))
		if e.Branch(zero) {
			return Tuple{e.mkInt(0), e.pkgVarIface("io", "EOF")}
		}
		if r.hostile {
			// yields min(len(p), remaining) arbitrary bytes without needing input
			full := e.tb.Cmp(OpUle, e.tb.Const(64, uint64(p.Len)), r.remaining)
			n := p.Len
			if !e.Branch(full) {
				n = int(e.Concretize(r.remaining, "inflate tail"))
			}
			e.havocFill(p, n)
			r.remaining = e.tb.Bin(OpSub, r.remaining, e.tb.Const(64, uint64(n)))
			return Tuple{e.mkInt(int64(n)), Iface{}}
		}
		rem := int(e.Concretize(r.remaining, "gzip member length"))
		n := p.Len
		if rem < n {
			n = rem
		}
		got, er := e.readFromIface(fr, r.src, n)
		for i, t := range got {
			p.B.E[p.Off+i] = t
		}
		r.remaining = e.tb.Const(64, uint64(rem-len(got)))
		if len(got) < n {
			_ = er
			return Tuple{e.mkInt(int64(len(got))), e.pkgVarIface("io", "ErrUnexpectedEOF")}
		}
		return Tuple{e.mkInt(int64(n)), Iface{}}
	}
}

// havocFill overwrites the first n elements of p with arbitrary bytes. Large
// fills share one fresh variable per 4 KiB page beyond the first 64 bytes (contents
// of bomb output are irrelevant to the obligations checked).
func (e *Engine) havocFill(p Slice, n int) {
	var page *Term
	for i := 0; i < n; i++ {
		if i < 64 {
			p.B.E[p.Off+i] = e.freshInternal("inflate", BV(8))
			continue
		}
		if i%4096 == 64%4096 || page == nil {
			page = e.freshInternal("inflatepg", BV(8))
		}
		p.B.E[p.Off+i] = page
	}
}

// ---- model *net.TCPConn ------------------------------------------------------------------
//
// verif_TCPConn(in, out) returns a *net.TCPConn whose Read comes from the harness'
// verifReader and whose Write goes to the harness' verifSink (natively: a real
// loopback connection pumped from/to the same objects). net.Buffers.WriteTo writes
// the buffers one after the other.

type tcpModel struct {
	in, out Iface
	closed  bool
	closeW  bool
}

func (e *Engine) tcpFor(p Ptr) *tcpModel {
	if p.B == nil {
		panic(e.targetPanicStr("invalid memory address or nil pointer dereference"))
	}
	m := e.tcpConns[p.B.E[p.I].(*Backing)]
	if m == nil {
		panic(e.unsupported("*net.TCPConn that was not created by verif_TCPConn"))
	}
	return m
}

func init() {
	verifAPI["verif_TCPConn"] = func(e *Engine, fr *frame, a []Value) Value {
		sig := fr.fn.Signature
		rt := mustDeref(sig.Results().At(0).Type())
		sb := e.zero(rt).(*Backing)
		if e.tcpConns == nil {
			e.tcpConns = map[*Backing]*tcpModel{}
		}
		e.tcpConns[sb] = &tcpModel{in: Iface{T: sig.Params().At(0).Type(), V: a[0]}, out: Iface{T: sig.Params().At(1).Type(), V: a[1]}}
		return Ptr{B: &Backing{E: []Value{sb}}}
	}
	verifAPI["verif_TCPSync"] = func(e *Engine, fr *frame, a []Value) Value { return nil }
	intercepts["(*net.TCPConn).Read"] = func(e *Engine, fr *frame, a []Value) Value {
		m := e.tcpFor(a[0].(Ptr))
		if m.closed {
			return Tuple{e.mkInt(0), e.mkError("use of closed network connection")}
		}
		r, _ := e.callMethod(fr, m.in, "Read", a[1])
		return r
	}
	intercepts["(*net.TCPConn).Write"] = func(e *Engine, fr *frame, a []Value) Value {
		m := e.tcpFor(a[0].(Ptr))
		if m.closed || m.closeW {
			return Tuple{e.mkInt(0), e.mkError("use of closed network connection")}
		}
		if e.cfg.Bounds["tcp_write_yield"] != 0 {
			// each write call is one atomic step on the wire; another writer of the same
			// connection may get in between two calls
			e.explicitYield = true
			e.Yield()
		}
		r, _ := e.callMethod(fr, m.out, "Write", a[1])
		return r
	}
	intercepts["(*net.TCPConn).Close"] = func(e *Engine, fr *frame, a []Value) Value {
		m := e.tcpFor(a[0].(Ptr))
		if m.closed {
			return e.mkError("use of closed network connection")
		}
		m.closed = true
		return Iface{}
	}
	intercepts["(*net.TCPConn).CloseWrite"] = func(e *Engine, fr *frame, a []Value) Value {
		m := e.tcpFor(a[0].(Ptr))
		m.closeW = true
		return Iface{}
	}
	for _, n := range []string{"SetDeadline", "SetReadDeadline", "SetWriteDeadline", "SetNoDelay", "SetKeepAlive", "SetKeepAlivePeriod", "SetLinger", "CloseRead", "SetReadBuffer", "SetWriteBuffer"} {
		intercepts["(*net.TCPConn)."+n] = func(e *Engine, fr *frame, a []Value) Value { return Iface{} }
	}
	intercepts["(*net.Buffers).WriteTo"] = func(e *Engine, fr *frame, a []Value) Value {
		p := a[0].(Ptr)
		bufs := p.B.E[p.I].(Slice)
		w := a[1].(Iface)
		total := e.tb.Const(64, 0)
		if wp, isPtr := w.V.(Ptr); isPtr && e.cfg.Bounds["tcp_write_yield"] != 0 && wp.B != nil {
			if sb, ok := wp.B.E[wp.I].(*Backing); ok && e.tcpConns[sb] != nil {
				// writev on a TCP connection: all buffers leave as one atomic step
				m := e.tcpConns[sb]
				e.explicitYield = true
				e.Yield()
				if m.closed || m.closeW {
					return Tuple{total, e.mkError("use of closed network connection")}
				}
				w = m.out
			}
		}
		for i := 0; i < bufs.Len; i++ {
			b := bufs.B.E[bufs.Off+i].(Slice)
			if b.Len == 0 {
				continue
			}
			r, ok := e.callMethod(fr, w, "Write", b)
			if !ok {
				panic(e.unsupported("Buffers.WriteTo target has no Write"))
			}
			tp := r.(Tuple)
			total = e.tb.Bin(OpAdd, total, tp[0].(*Term))
			if er := tp[1].(Iface); er.T != nil {
				return Tuple{total, er}
			}
		}
		p.B.E[p.I] = Slice{}
		return Tuple{total, Iface{}}
	}
}

// ---- hostile JSON -------------------------------------------------------------------------
// With Bounds["json_havoc"]=1, json.Unmarshal of bytes that did not come from
// json.Marshal (attacker-controlled text) either fails or fills the destination with
// arbitrary values of the destination's type (strings: length 0 or 1).

func (e *Engine) havocValue(t types.Type, depth int) Value {
	switch u := t.Underlying().(type) {
	case *types.Basic:
		if u.Kind() == types.Bool {
			return e.freshInternal("jb", BoolSort)
		}
		if w, _, ok := intWidth(u); ok {
			return e.freshInternal("ji", BV(w))
		}
		if u.Info()&types.IsString != 0 {
			if e.ChooseN(2) == 0 {
				return Str{}
			}
			return Str{Sym: []*Term{e.freshInternal("js", BV(8))}}
		}
		if u.Info()&types.IsFloat != 0 {
			return float64(0)
		}
	case *types.Struct:
		b := &Backing{E: make([]Value, u.NumFields())}
		for i := range b.E {
			if depth > 3 || !u.Field(i).Exported() {
				b.E[i] = e.zero(u.Field(i).Type())
			} else {
				b.E[i] = e.havocValue(u.Field(i).Type(), depth+1)
			}
		}
		return b
	case *types.Pointer:
		if depth > 2 || e.ChooseN(2) == 0 {
			return Ptr{}
		}
		return Ptr{B: &Backing{E: []Value{e.havocValue(u.Elem(), depth+1)}}}
	case *types.Slice:
		if depth > 2 || e.ChooseN(2) == 0 {
			return Slice{}
		}
		return Slice{B: &Backing{E: []Value{e.havocValue(u.Elem(), depth+1)}}, Len: 1, Cap: 1}
	}
	return e.zero(t)
}

func init() {
	defaultHavoc := func(e *Engine, fr *frame, data Slice, dst Iface) Value {
		if e.cfg.Bounds["json_havoc"] == 0 {
			panic(e.unsupported("json.Unmarshal of bytes that did not come from json.Marshal"))
		}
		if e.ChooseN(2) == 0 {
			return e.mkError("invalid character (hostile json)")
		}
		if dst.T == nil {
			return e.mkError("json: Unmarshal(nil)")
		}
		pt, ok := dst.T.Underlying().(*types.Pointer)
		if !ok {
			return e.mkError("json: Unmarshal(non-pointer)")
		}
		p := dst.V.(Ptr)
		if p.B == nil {
			return e.mkError("json: Unmarshal(nil pointer)")
		}
		e.store(p, e.havocValue(pt.Elem(), 0))
		return Iface{}
	}
	jsonDefaultHavoc = defaultHavoc
}

var jsonDefaultHavoc func(e *Engine, fr *frame, data Slice, dst Iface) Value

// crypto/rand.Int under small-domain randomness: the first call of a path returns a
// tape draw below rand_domain, later calls return 0 (each call still consumes one tape
// byte so that the native verifRandReader stays aligned).
func init() {
	intercepts["crypto/rand.Int"] = func(e *Engine, fr *frame, a []Value) Value {
		dom := e.cfg.Bounds["rand_domain"]
		if dom <= 0 {
			panic(e.unsupported("crypto/rand.Int without rand_domain bound"))
		}
		b := e.fresh("byte", BV(8))
		if e.randInts == 0 {
			e.Assume(e.tb.Cmp(OpUlt, b, e.tb.Const(8, uint64(dom))))
		} else {
			e.Assume(e.tb.Eq(b, e.tb.Const(8, 0)))
		}
		e.randInts++
		rt := mustDeref(fr.fn.Signature.Results().At(0).Type())
		sb := e.zero(rt).(*Backing)
		sb.E[1] = Slice{B: &Backing{E: []Value{e.tb.ZExt(b, 64)}}, Len: 1, Cap: 1}
		return Tuple{Ptr{B: &Backing{E: []Value{sb}}}, Iface{}}
	}
}

// ---- SecretKeyManager as an ideal keyed function ---------------------------------------------
//
// AES-GCM / HMAC-SHA256 mathematics is outside the claim. Encrypt/Decrypt are an
// invertible pair, ComputeResponse(k, c) is an injective function of (k, c); the real
// VerifyResponse body runs on top of them. hmac.Equal is byte equality.

func init() {
	const mgr = "(*tunnox-core/internal/security.SecretKeyManager)."
	intercepts[mgr+"Encrypt"] = func(e *Engine, fr *frame, a []Value) Value {
		return Tuple{e.strConcat(Str{S: "E("}, e.strConcat(a[1].(Str), Str{S: ")"})), Iface{}}
	}
	intercepts[mgr+"Decrypt"] = func(e *Engine, fr *frame, a []Value) Value {
		s := a[1].(Str)
		n := s.Len()
		if n < 3 {
			return Tuple{Str{}, e.mkError("decrypt: malformed ciphertext")}
		}
		head := e.strEq(e.strSlice(s, 0, 2), Str{S: "E("})
		tail := e.strEq(e.strSlice(s, n-1, n), Str{S: ")"})
		if !e.Branch(e.tb.And(head, tail)) {
			return Tuple{Str{}, e.mkError("decrypt: malformed ciphertext")}
		}
		return Tuple{e.strSlice(s, 2, n-1), Iface{}}
	}
	intercepts[mgr+"ComputeResponse"] = func(e *Engine, fr *frame, a []Value) Value {
		r := e.strConcat(Str{S: "H("}, a[1].(Str))
		r = e.strConcat(r, Str{S: "|"})
		r = e.strConcat(r, a[2].(Str))
		return e.strConcat(r, Str{S: ")"})
	}
	intercepts["crypto/hmac.Equal"] = func(e *Engine, fr *frame, a []Value) Value {
		x, y := a[0].(Slice), a[1].(Slice)
		if x.Len != y.Len {
			return e.tb.False
		}
		r := e.tb.True
		for i := 0; i < x.Len; i++ {
			r = e.tb.And(r, e.tb.Eq(x.B.E[x.Off+i].(*Term), y.B.E[y.Off+i].(*Term)))
		}
		return r
	}
	intercepts["encoding/hex.EncodeToString"] = func(e *Engine, fr *frame, a []Value) Value {
		s := a[0].(Slice)
		out := make([]*Term, 0, 2*s.Len)
		hexd := func(n *Term) *Term {
			lt := e.tb.Cmp(OpUlt, n, e.tb.Const(8, 10))
			return e.tb.Ite(lt, e.tb.Bin(OpAdd, n, e.tb.Const(8, '0')), e.tb.Bin(OpAdd, n, e.tb.Const(8, 'a'-10)))
		}
		for i := 0; i < s.Len; i++ {
			b := s.B.E[s.Off+i].(*Term)
			out = append(out, hexd(e.tb.Bin(OpLShr, b, e.tb.Const(8, 4))), hexd(e.tb.Bin(OpBAnd, b, e.tb.Const(8, 15))))
		}
		return e.normStr(out, nil)
	}
}
