package engine

import (
	"fmt"
	"go/types"
	"strings"

	"golang.org/x/tools/go/ssa"
)

// Value representations:
//   bool / intN / uintN / uintptr : *Term (Bool or BV(w))
//   float32/float64               : float64 (concrete only)
//   string                        : Str
//   pointer / unsafe.Pointer      : Ptr
//   slice                         : Slice
//   struct / array (by value)     : *Backing (deep-copied on load/store)
//   interface                     : Iface
//   map                           : *MapObj (nil map = (*MapObj)(nil))
//   chan                          : *ChanObj
//   func                          : *ssa.Function | *ssa.Builtin | *Closure | nilFunc{}
//   tuple                         : Tuple
type Value interface{}

type Blob struct {
	ID   int
	Snap Value      // deep snapshot of marshalled value
	T    types.Type // static type of the snapshot
	Tree *jnode     // JSON tree (built lazily from Snap, or the only content of a tree blob)
}

type Str struct {
	S   string
	Sym []*Term // non-nil: symbolic bytes; S ignored
	Tag *Blob
	IP  []*Term // non-nil: this string is net.IP(IP).String() of symbolic address bytes (4 or 16)
}

type Backing struct {
	E   []Value
	Tag *Blob
}

type Ptr struct {
	B   *Backing
	I   int
	Sym *Term // symbolic index (BV64) when non-nil
	N   int   // window length for symbolic index
}

func (p Ptr) IsNil() bool { return p.B == nil }

type Slice struct {
	B             *Backing
	Off, Len, Cap int
}

type Iface struct {
	T types.Type
	V Value
}

type Closure struct {
	Fn  *ssa.Function
	Env []Value
}

type nilFunc struct{}

type Tuple []Value

type mapEntry struct {
	K, V Value
}

type MapObj struct {
	Ent  []*mapEntry
	KeyT types.Type
}

type ChanObj struct {
	Buf    []Value
	Cap    int
	Closed bool
	ElemT  types.Type
	// rendezvous support for unbuffered channels
	recvWaiting int
	Timer       bool
	Fires       int // remaining times a timer/ticker channel may deliver
	Next        *Term // next firing instant on the engine clock (exact mode)
	Period      *Term // nil for one-shot timers
	sent, taken int
}

// ---- strings ---------------------------------------------------------------

func (e *Engine) mkStr(s string) Str { return Str{S: s} }

func (s Str) Len() int {
	if s.Sym != nil {
		return len(s.Sym)
	}
	return len(s.S)
}

func (s Str) IsConc() bool { return s.Sym == nil }

func (e *Engine) strByte(s Str, i int) *Term {
	if s.Sym != nil {
		return s.Sym[i]
	}
	return e.tb.Const(8, uint64(s.S[i]))
}

func (e *Engine) strBytes(s Str) []*Term {
	if s.Sym != nil {
		return s.Sym
	}
	r := make([]*Term, len(s.S))
	for i := 0; i < len(s.S); i++ {
		r[i] = e.tb.Const(8, uint64(s.S[i]))
	}
	return r
}

// normStr collapses an all-constant symbolic string to a concrete one.
func (e *Engine) normStr(b []*Term, tag *Blob) Str {
	all := true
	for _, t := range b {
		if !t.IsConst() {
			all = false
			break
		}
	}
	if all {
		bs := make([]byte, len(b))
		for i, t := range b {
			bs[i] = byte(t.C)
		}
		return Str{S: string(bs), Tag: tag}
	}
	if b == nil {
		b = []*Term{}
	}
	return Str{Sym: b, Tag: tag}
}

func (e *Engine) strConcat(a, b Str) Str {
	if a.IsConc() && b.IsConc() {
		return Str{S: a.S + b.S}
	}
	r := append(append([]*Term{}, e.strBytes(a)...), e.strBytes(b)...)
	return e.normStr(r, nil)
}

func (e *Engine) strSlice(s Str, lo, hi int) Str {
	if s.IsConc() {
		r := Str{S: s.S[lo:hi]}
		if lo == 0 && hi == len(s.S) {
			r.Tag = s.Tag
		}
		return r
	}
	return e.normStr(s.Sym[lo:hi], nil)
}

func (e *Engine) strEq(a, b Str) *Term {
	if a.IP != nil || b.IP != nil {
		return e.ipStrEq(a, b)
	}
	if a.Tag != nil && b.Tag != nil {
		return e.tb.Bool(a.Tag == b.Tag)
	}
	if a.IsConc() && b.IsConc() {
		return e.tb.Bool(a.S == b.S)
	}
	if a.Len() != b.Len() {
		return e.tb.False
	}
	r := e.tb.True
	for i := 0; i < a.Len(); i++ {
		r = e.tb.And(r, e.tb.Eq(e.strByte(a, i), e.strByte(b, i)))
	}
	return r
}

// strLess builds the lexicographic a<b term.
func (e *Engine) strLess(a, b Str) *Term {
	if a.IsConc() && b.IsConc() {
		return e.tb.Bool(a.S < b.S)
	}
	// from the end: less_i = a[i]<b[i] || (a[i]==b[i] && less_{i+1})
	n := a.Len()
	if b.Len() < n {
		n = b.Len()
	}
	r := e.tb.Bool(a.Len() < b.Len())
	for i := n - 1; i >= 0; i-- {
		x, y := e.strByte(a, i), e.strByte(b, i)
		r = e.tb.Or(e.tb.Cmp(OpUlt, x, y), e.tb.And(e.tb.Eq(x, y), r))
	}
	return r
}

// ---- zero values / copying ---------------------------------------------------

func intWidth(b *types.Basic) (w int, signed bool, ok bool) {
	switch b.Kind() {
	case types.Int8:
		return 8, true, true
	case types.Int16:
		return 16, true, true
	case types.Int32:
		return 32, true, true
	case types.Int64, types.Int, types.UntypedInt, types.UntypedRune:
		return 64, true, true
	case types.Uint8:
		return 8, false, true
	case types.Uint16:
		return 16, false, true
	case types.Uint32:
		return 32, false, true
	case types.Uint64, types.Uint, types.Uintptr:
		return 64, false, true
	}
	return 0, false, false
}

func isFloat(t types.Type) bool {
	b, ok := t.Underlying().(*types.Basic)
	return ok && b.Info()&types.IsFloat != 0
}

func isString(t types.Type) bool {
	b, ok := t.Underlying().(*types.Basic)
	return ok && b.Info()&types.IsString != 0
}

func (e *Engine) zero(t types.Type) Value {
	switch t := t.(type) {
	case *types.Basic:
		if t.Kind() == types.Bool || t.Kind() == types.UntypedBool {
			return e.tb.False
		}
		if w, _, ok := intWidth(t); ok {
			return e.tb.Const(w, 0)
		}
		if t.Info()&types.IsFloat != 0 {
			return float64(0)
		}
		if t.Info()&types.IsString != 0 {
			return Str{}
		}
		if t.Kind() == types.UnsafePointer {
			return Ptr{}
		}
		if t.Kind() == types.UntypedNil {
			return nil
		}
		if t.Info()&types.IsComplex != 0 {
			return complex128(0)
		}
		panic(e.unsupported("zero of basic type " + t.String()))
	case *types.Pointer:
		return Ptr{}
	case *types.Slice:
		return Slice{}
	case *types.Map:
		return (*MapObj)(nil)
	case *types.Chan:
		return (*ChanObj)(nil)
	case *types.Signature:
		return nilFunc{}
	case *types.Interface:
		return Iface{}
	case *types.Struct:
		b := &Backing{E: make([]Value, t.NumFields())}
		for i := range b.E {
			b.E[i] = e.zero(t.Field(i).Type())
		}
		return b
	case *types.Array:
		n := int(t.Len())
		b := &Backing{E: make([]Value, n)}
		if n > 0 {
			z := e.zero(t.Elem())
			if _, agg := z.(*Backing); agg {
				for i := range b.E {
					b.E[i] = e.zero(t.Elem())
				}
			} else {
				for i := range b.E {
					b.E[i] = z
				}
			}
		}
		return b
	case *types.Named:
		return e.zero(t.Underlying())
	case *types.Alias:
		return e.zero(types.Unalias(t))
	case *types.Tuple:
		r := make(Tuple, t.Len())
		for i := range r {
			r[i] = e.zero(t.At(i).Type())
		}
		return r
	case *types.TypeParam:
		panic(e.unsupported("zero of type parameter"))
	}
	panic(e.unsupported(fmt.Sprintf("zero of %T", t)))
}

// copyVal copies inline aggregates (struct/array values); everything else is
// immutable or has reference semantics.
func copyVal(v Value) Value {
	if b, ok := v.(*Backing); ok {
		if b == nil {
			return b
		}
		nb := &Backing{E: make([]Value, len(b.E)), Tag: b.Tag}
		for i, x := range b.E {
			if xb, ok := x.(*Backing); ok {
				nb.E[i] = copyVal(xb)
			} else {
				nb.E[i] = x
			}
		}
		return nb
	}
	return v
}

// ---- equality ----------------------------------------------------------------

func (e *Engine) eqVal(a, b Value) *Term {
	switch x := a.(type) {
	case nil:
		return e.tb.Bool(b == nil)
	case *Term:
		y, ok := b.(*Term)
		if !ok {
			return e.tb.False
		}
		return e.tb.Eq(x, y)
	case float64:
		return e.tb.Bool(x == b.(float64))
	case complex128:
		return e.tb.Bool(x == b.(complex128))
	case Str:
		return e.strEq(x, b.(Str))
	case Ptr:
		y := b.(Ptr)
		if x.Sym != nil || y.Sym != nil {
			panic(e.unsupported("comparison of symbolic-index pointers"))
		}
		return e.tb.Bool(x.B == y.B && (x.B == nil || x.I == y.I))
	case *Backing:
		y := b.(*Backing)
		r := e.tb.True
		for i := range x.E {
			r = e.tb.And(r, e.eqVal(x.E[i], y.E[i]))
			if r.IsFalse() {
				return r
			}
		}
		return r
	case Iface:
		y, ok := b.(Iface)
		if !ok {
			return e.tb.False
		}
		if x.T == nil || y.T == nil {
			return e.tb.Bool(x.T == nil && y.T == nil)
		}
		if !types.Identical(x.T, y.T) {
			return e.tb.False
		}
		if !types.Comparable(x.T) {
			panic(e.targetPanicStr("runtime error: comparing uncomparable type " + x.T.String()))
		}
		return e.eqVal(x.V, y.V)
	case *MapObj:
		y, _ := b.(*MapObj)
		return e.tb.Bool(x == y)
	case *ChanObj:
		y, _ := b.(*ChanObj)
		return e.tb.Bool(x == y)
	case nilFunc:
		_, ok := b.(nilFunc)
		return e.tb.Bool(ok)
	case *ssa.Function, *Closure, *ssa.Builtin:
		if _, ok := b.(nilFunc); ok {
			return e.tb.False
		}
		return e.tb.Bool(a == b)
	case Slice:
		// only slice == nil is legal
		y := b.(Slice)
		return e.tb.Bool(x.B == nil && y.B == nil)
	}
	panic(e.unsupported(fmt.Sprintf("eqVal on %T", a)))
}

// ---- debugging ---------------------------------------------------------------

func (e *Engine) show(v Value) string {
	switch x := v.(type) {
	case nil:
		return "nil"
	case *Term:
		if x.IsConst() {
			if x.S.K == KBool {
				return fmt.Sprint(x.C == 1)
			}
			return fmt.Sprint(x.C)
		}
		return "sym#" + fmt.Sprint(x.ID)
	case Str:
		if x.IsConc() {
			return fmt.Sprintf("%q", x.S)
		}
		return fmt.Sprintf("symstr[%d]", len(x.Sym))
	case Ptr:
		if x.B == nil {
			return "nilptr"
		}
		return fmt.Sprintf("&%p[%d]", x.B, x.I)
	case Slice:
		var sb strings.Builder
		sb.WriteString("[")
		for i := 0; i < x.Len && i < 16; i++ {
			if i > 0 {
				sb.WriteString(" ")
			}
			sb.WriteString(e.show(x.B.E[x.Off+i]))
		}
		sb.WriteString("]")
		return sb.String()
	case *Backing:
		var sb strings.Builder
		sb.WriteString("{")
		for i, f := range x.E {
			if i > 0 {
				sb.WriteString(" ")
			}
			if i > 8 {
				sb.WriteString("...")
				break
			}
			sb.WriteString(e.show(f))
		}
		sb.WriteString("}")
		return sb.String()
	case Iface:
		if x.T == nil {
			return "nil-iface"
		}
		return "iface(" + x.T.String() + ")"
	}
	return fmt.Sprintf("%T", v)
}
