package engine

import (
	"os"
	"fmt"
	"go/token"
	"go/types"
	"math"
	"unicode/utf8"

	"golang.org/x/tools/go/ssa"
)

const iteIndexMax = 96

// ---- memory ---------------------------------------------------------------------

func (e *Engine) load(p Ptr) Value {
	if p.B == nil {
		panic(e.targetPanicStr("invalid memory address or nil pointer dereference"))
	}
	if p.Sym != nil {
		return e.loadSym(p)
	}
	return copyVal(p.B.E[p.I])
}

func (e *Engine) store(p Ptr, v Value) {
	if p.B == nil {
		panic(e.targetPanicStr("invalid memory address or nil pointer dereference"))
	}
	if p.Sym != nil {
		e.storeSym(p, v)
		return
	}
	// an aggregate (struct, array) assigned over an existing one is copied into the same cells, as
	// in Go: pointers to its fields or elements taken before the assignment (the compiler computes
	// &b.f before *b = T{} in composite-literal assignments) stay valid
	if nb, ok := v.(*Backing); ok && nb != nil {
		if old, ok2 := p.B.E[p.I].(*Backing); ok2 && old != nil && len(old.E) == len(nb.E) {
			assignInPlace(old, copyVal(nb).(*Backing))
			return
		}
	}
	p.B.E[p.I] = copyVal(v)
}

func assignInPlace(dst, src *Backing) {
	dst.Tag = src.Tag
	for i, x := range src.E {
		if sb, ok := x.(*Backing); ok && sb != nil {
			if db, ok2 := dst.E[i].(*Backing); ok2 && db != nil && len(db.E) == len(sb.E) {
				assignInPlace(db, sb)
				continue
			}
		}
		dst.E[i] = x
	}
}

func (e *Engine) loadSym(p Ptr) Value {
	n := e.symN(p)
	allTerms := n <= iteIndexMax
	if allTerms {
		for k := 0; k < n; k++ {
			if _, ok := p.B.E[p.I+k].(*Term); !ok {
				allTerms = false
				break
			}
		}
	}
	if !allTerms {
		k := e.Concretize(p.Sym, "element index")
		return copyVal(p.B.E[p.I+int(k)])
	}
	r := p.B.E[p.I+n-1].(*Term)
	for k := n - 2; k >= 0; k-- {
		r = e.tb.Ite(e.tb.Eq(p.Sym, e.tb.Const(64, uint64(k))), p.B.E[p.I+k].(*Term), r)
	}
	return r
}

func (e *Engine) storeSym(p Ptr, v Value) {
	n := e.symN(p)
	vt, isT := v.(*Term)
	if !isT || n > iteIndexMax {
		k := e.Concretize(p.Sym, "element index")
		p.B.E[p.I+int(k)] = copyVal(v)
		return
	}
	for k := 0; k < n; k++ {
		old, ok := p.B.E[p.I+k].(*Term)
		if !ok {
			kk := e.Concretize(p.Sym, "element index")
			p.B.E[p.I+int(kk)] = v
			return
		}
		p.B.E[p.I+k] = e.tb.Ite(e.tb.Eq(p.Sym, e.tb.Const(64, uint64(k))), vt, old)
	}
}

func (e *Engine) symN(p Ptr) int {
	if p.N > 0 {
		return p.N
	}
	return len(p.B.E) - p.I
}

// toIndex widens an index value to BV64 according to its Go type.
func (e *Engine) toIndex(idx *Term, t types.Type) *Term {
	if idx.S.W == 64 {
		return idx
	}
	_, signed, _ := intWidth(t.Underlying().(*types.Basic))
	if signed {
		return e.tb.SExt(idx, 64)
	}
	return e.tb.ZExt(idx, 64)
}

// boundsCheck forks on 0 <= idx < n (idx as BV64 signed); the failing side panics.
func (e *Engine) boundsCheck(idx *Term, n int, what string) {
	inb := e.tb.Cmp(OpUlt, idx, e.tb.Const(64, uint64(n)))
	if !e.Branch(inb) {
		panic(e.targetPanicStr(fmt.Sprintf("runtime error: index out of range (%s) with length %d", what, n)))
	}
}

func (e *Engine) indexAddr(x Value, idx *Term, it types.Type) Ptr {
	idx = e.toIndex(idx, it)
	var b *Backing
	off, n := 0, 0
	switch x := x.(type) {
	case Slice:
		b, off, n = x.B, x.Off, x.Len
	case Ptr: // *array
		x = e.concPtr(x)
		if x.B == nil {
			panic(e.targetPanicStr("invalid memory address or nil pointer dereference"))
		}
		b = x.B.E[x.I].(*Backing)
		n = len(b.E)
	default:
		panic(e.unsupported(fmt.Sprintf("IndexAddr on %T", x)))
	}
	e.boundsCheck(idx, n, "index")
	if idx.IsConst() {
		return Ptr{B: b, I: off + int(idx.C)}
	}
	if n == 1 {
		return Ptr{B: b, I: off}
	}
	return Ptr{B: b, I: off, Sym: idx, N: n}
}

func (e *Engine) indexVal(x Value, idx *Term, it types.Type) Value {
	idx = e.toIndex(idx, it)
	switch x := x.(type) {
	case *Backing:
		e.boundsCheck(idx, len(x.E), "index")
		if idx.IsConst() {
			return copyVal(x.E[idx.C])
		}
		return e.loadSym(Ptr{B: x, I: 0, Sym: idx, N: len(x.E)})
	case Str:
		e.boundsCheck(idx, x.Len(), "string index")
		if idx.IsConst() {
			return e.strByte(x, int(idx.C))
		}
		bs := e.strBytes(x)
		r := bs[len(bs)-1]
		for k := len(bs) - 2; k >= 0; k-- {
			r = e.tb.Ite(e.tb.Eq(idx, e.tb.Const(64, uint64(k))), bs[k], r)
		}
		return r
	}
	panic(e.unsupported(fmt.Sprintf("Index on %T", x)))
}

// ---- slices ---------------------------------------------------------------------

func (e *Engine) sliceBound(v Value, t types.Type, def int) int {
	if v == nil {
		return def
	}
	tm := e.toIndex(v.(*Term), t)
	return int(e.concInt(tm, "slice bound"))
}

func (e *Engine) sliceOp(fr *frame, in *ssa.Slice) Value {
	x := fr.get(in.X)
	var lt, ht, mt types.Type
	if in.Low != nil {
		lt = in.Low.Type()
	}
	if in.High != nil {
		ht = in.High.Type()
	}
	if in.Max != nil {
		mt = in.Max.Type()
	}
	switch x := x.(type) {
	case Str:
		lo := e.sliceBound(fr.get(in.Low), lt, 0)
		hi := e.sliceBound(fr.get(in.High), ht, x.Len())
		if lo < 0 || hi < lo || hi > x.Len() {
			panic(e.targetPanicStr(fmt.Sprintf("runtime error: slice bounds out of range [%d:%d] with length %d", lo, hi, x.Len())))
		}
		return e.strSlice(x, lo, hi)
	case Slice:
		lo := e.sliceBound(fr.get(in.Low), lt, 0)
		hi := e.sliceBound(fr.get(in.High), ht, x.Len)
		mx := e.sliceBound(fr.get(in.Max), mt, x.Cap)
		if lo < 0 || hi < lo || mx < hi || mx > x.Cap {
			panic(e.targetPanicStr(fmt.Sprintf("runtime error: slice bounds out of range [%d:%d:%d] with capacity %d", lo, hi, mx, x.Cap)))
		}
		if x.B == nil {
			return Slice{}
		}
		return Slice{B: x.B, Off: x.Off + lo, Len: hi - lo, Cap: mx - lo}
	case Ptr: // *array
		x = e.concPtr(x)
		if x.B == nil {
			panic(e.targetPanicStr("invalid memory address or nil pointer dereference"))
		}
		b := x.B.E[x.I].(*Backing)
		n := len(b.E)
		lo := e.sliceBound(fr.get(in.Low), lt, 0)
		hi := e.sliceBound(fr.get(in.High), ht, n)
		mx := e.sliceBound(fr.get(in.Max), mt, n)
		if lo < 0 || hi < lo || mx < hi || mx > n {
			panic(e.targetPanicStr(fmt.Sprintf("runtime error: slice bounds out of range [%d:%d:%d] with capacity %d", lo, hi, mx, n)))
		}
		return Slice{B: b, Off: lo, Len: hi - lo, Cap: mx - lo}
	}
	panic(e.unsupported(fmt.Sprintf("Slice on %T", x)))
}

func (e *Engine) newBacking(elem types.Type, n int) *Backing {
	b := &Backing{E: make([]Value, n)}
	if n == 0 {
		return b
	}
	z := e.zero(elem)
	if _, agg := z.(*Backing); agg {
		for i := range b.E {
			b.E[i] = e.zero(elem)
		}
	} else {
		for i := range b.E {
			b.E[i] = z
		}
	}
	return b
}

func (e *Engine) makeSlice(in *ssa.MakeSlice, ln, cp *Term) Value {
	elem := in.Type().Underlying().(*types.Slice).Elem()
	ln = e.toIndex(ln, in.Len.Type())
	cp = e.toIndex(cp, in.Cap.Type())
	n := e.allocSize(ln, "make len in "+in.Parent().String())
	c := n
	if cp != ln {
		c = e.allocSize(cp, "make cap in "+in.Parent().String())
	}
	if n < 0 || c < n {
		panic(e.targetPanicStr("runtime error: makeslice: len out of range"))
	}
	return Slice{B: e.newBacking(elem, int(c)), Off: 0, Len: int(n), Cap: int(c)}
}

// allocSize turns a (possibly symbolic) allocation size into a concrete one.
// Obligation: size <= AllocLimit when set. Symbolic sizes are case-split up to
// Bounds["alloc_enum"] (default 64); larger feasible sizes end the path as a
// recorded cut (outside the claim), after the obligation has been checked.
func (e *Engine) allocSize(t *Term, what string) int64 {
	t = e.subst(t)
	if t.IsConst() {
		v := sext64(t.C, 64)
		if e.allocLimit > 0 && v > e.allocLimit {
			e.Assert("alloc.limit", e.tb.False, fmt.Sprintf("%s of %d exceeds limit %d", what, v, e.allocLimit))
		}
		if v > 1<<26 {
			panic(pathEnd{"cut", fmt.Sprintf("%s of %d elements too large for the engine", what, v)})
		}
		return v
	}
	neg := e.tb.Cmp(OpSlt, t, e.tb.Const(64, 0))
	if e.Branch(neg) {
		panic(e.targetPanicStr("runtime error: makeslice: len out of range"))
	}
	if e.allocLimit > 0 {
		e.Assert("alloc.limit", e.tb.Cmp(OpSle, t, e.tb.Const(64, uint64(e.allocLimit))), what+" exceeds allocation limit")
	}
	k := 64
	if b, ok := e.cfg.Bounds["alloc_enum"]; ok {
		k = b
	}
	small := e.tb.Cmp(OpSle, t, e.tb.Const(64, uint64(k)))
	if !e.Branch(small) {
		if os.Getenv("GOSYM_SHOW_CUTS") != "" {
			fmt.Printf("DEBUG cut: t=%s replay=%v npins=%d\n", t, e.inReplay(), len(e.pins))
			for id, k := range e.pins {
				for _, tt := range e.tb.tab {
					if tt.ID == id && len(tt.String()) < 80 {
						fmt.Printf("   pin %s := %s\n", tt, k)
					}
				}
			}
		}
		e.refreshModelSafe()
		e.event(Event{Kind: "cut", Label: "alloc.large", Msg: fmt.Sprintf("%s larger than %d: path cut after obligation check [size=%s]", what, k, t), Tape: e.mkTape("cut", "alloc.large", e.model, "")})
		panic(pathEnd{"cut", "large symbolic allocation"})
	}
	return e.concInt(t, what)
}

// ---- maps -----------------------------------------------------------------------

func (e *Engine) mapFind(m *MapObj, k Value) *mapEntry {
	if m == nil {
		return nil
	}
	for _, en := range m.Ent {
		c := e.eqVal(en.K, k)
		if e.Branch(c) {
			return en
		}
	}
	return nil
}

func (e *Engine) mapSet(m *MapObj, k, v Value) {
	if en := e.mapFind(m, k); en != nil {
		en.V = v
		return
	}
	m.Ent = append(m.Ent, &mapEntry{K: copyVal(k), V: v})
}

func (e *Engine) mapDelete(m *MapObj, k Value) {
	if m == nil {
		return
	}
	en := e.mapFind(m, k)
	if en == nil {
		return
	}
	for i, x := range m.Ent {
		if x == en {
			m.Ent = append(m.Ent[:i:i], m.Ent[i+1:]...)
			return
		}
	}
}

func (e *Engine) lookup(in *ssa.Lookup, x, k Value) Value {
	switch x := x.(type) {
	case *MapObj:
		vt := in.X.Type().Underlying().(*types.Map).Elem()
		en := e.mapFind(x, k)
		var v Value
		if en != nil {
			v = copyVal(en.V)
		} else {
			v = e.zero(vt)
		}
		if in.CommaOk {
			return Tuple{v, e.tb.Bool(en != nil)}
		}
		return v
	case Str:
		return e.indexVal(x, k.(*Term), in.Index.Type())
	}
	panic(e.unsupported(fmt.Sprintf("Lookup on %T", x)))
}

// ---- iteration ------------------------------------------------------------------

type iterator interface {
	next(e *Engine) Value
}

type mapIter struct {
	ents []*mapEntry
	m    *MapObj
	i    int
	kz   Value
	vz   Value
}

func (it *mapIter) next(e *Engine) Value {
	for it.i < len(it.ents) {
		en := it.ents[it.i]
		it.i++
		// skip entries deleted during iteration
		live := false
		for _, x := range it.m.Ent {
			if x == en {
				live = true
				break
			}
		}
		if live {
			return Tuple{e.tb.True, copyVal(en.K), copyVal(en.V)}
		}
	}
	return Tuple{e.tb.False, it.kz, it.vz}
}

type strIter struct {
	s Str
	i int
}

func (it *strIter) next(e *Engine) Value {
	if it.i >= it.s.Len() {
		return Tuple{e.tb.False, e.tb.Const(64, 0), e.tb.Const(32, 0)}
	}
	if !it.s.IsConc() {
		// treat bytes < 0x80 only: fork on high bit
		b := it.s.Sym[it.i]
		hi := e.tb.Cmp(OpUle, e.tb.Const(8, 0x80), b)
		if e.Branch(hi) {
			panic(e.unsupported("range over symbolic string with non-ASCII byte"))
		}
		idx := it.i
		it.i++
		return Tuple{e.tb.True, e.tb.Const(64, uint64(idx)), e.tb.ZExt(b, 32)}
	}
	r, sz := utf8.DecodeRuneInString(it.s.S[it.i:])
	idx := it.i
	it.i += sz
	return Tuple{e.tb.True, e.tb.Const(64, uint64(idx)), e.tb.Const(32, uint64(r))}
}

func (e *Engine) rangeIter(x Value, t types.Type) iterator {
	switch x := x.(type) {
	case *MapObj:
		mt := t.Underlying().(*types.Map)
		it := &mapIter{m: x, kz: e.zero(mt.Key()), vz: e.zero(mt.Elem())}
		if x != nil {
			it.ents = append(it.ents, x.Ent...)
			if e.anyOrder && len(it.ents) > 1 && len(it.ents) <= 3 {
				// explore all iteration orders of small maps
				perm := e.ChooseN(factorial(len(it.ents)))
				it.ents = permute(it.ents, perm)
			}
		}
		return it
	case Str:
		return &strIter{s: x}
	}
	panic(e.unsupported(fmt.Sprintf("range over %T", x)))
}

func factorial(n int) int {
	r := 1
	for i := 2; i <= n; i++ {
		r *= i
	}
	return r
}

func permute(in []*mapEntry, k int) []*mapEntry {
	pool := append([]*mapEntry{}, in...)
	var out []*mapEntry
	for n := len(pool); n > 0; n-- {
		f := factorial(n - 1)
		i := k / f
		k %= f
		out = append(out, pool[i])
		pool = append(pool[:i], pool[i+1:]...)
	}
	return out
}

// ---- unary / binary operators ------------------------------------------------------

func (e *Engine) unop(fr *frame, in *ssa.UnOp, x Value) Value {
	switch in.Op {
	case token.MUL:
		return e.load(x.(Ptr))
	case token.NOT:
		return e.tb.Not(x.(*Term))
	case token.SUB:
		switch x := x.(type) {
		case *Term:
			return e.tb.Neg(x)
		case float64:
			return -x
		}
	case token.XOR:
		return e.tb.BNot(x.(*Term))
	case token.ARROW:
		v, ok := e.chanRecv(x.(*ChanObj))
		if in.CommaOk {
			return Tuple{v, e.tb.Bool(ok)}
		}
		return v
	}
	panic(e.unsupported(fmt.Sprintf("unop %s on %T", in.Op, x)))
}

func typeSigned(t types.Type) bool {
	if b, ok := t.Underlying().(*types.Basic); ok {
		_, s, _ := intWidth(b)
		return s
	}
	return false
}

func (e *Engine) binop(op token.Token, t types.Type, x, y Value, yt types.Type) Value {
	switch xv := x.(type) {
	case *Term:
		yv := y.(*Term)
		if xv.S.K == KBool {
			switch op {
			case token.EQL:
				return e.tb.Eq(xv, yv)
			case token.NEQ:
				return e.tb.Not(e.tb.Eq(xv, yv))
			case token.AND, token.LAND:
				return e.tb.And(xv, yv)
			case token.OR, token.LOR:
				return e.tb.Or(xv, yv)
			}
			panic(e.unsupported("bool binop " + op.String()))
		}
		signed := typeSigned(t)
		switch op {
		case token.ADD:
			return e.tb.Bin(OpAdd, xv, yv)
		case token.SUB:
			return e.tb.Bin(OpSub, xv, yv)
		case token.MUL:
			return e.tb.Bin(OpMul, xv, yv)
		case token.QUO, token.REM:
			z := e.tb.Eq(yv, e.tb.Const(yv.S.W, 0))
			if e.Branch(z) {
				panic(e.targetPanicStr("runtime error: integer divide by zero"))
			}
			if op == token.QUO {
				if signed {
					return e.tb.Bin(OpSDiv, xv, yv)
				}
				return e.tb.Bin(OpUDiv, xv, yv)
			}
			if signed {
				return e.tb.Bin(OpSRem, xv, yv)
			}
			return e.tb.Bin(OpURem, xv, yv)
		case token.AND:
			return e.tb.Bin(OpBAnd, xv, yv)
		case token.OR:
			return e.tb.Bin(OpBOr, xv, yv)
		case token.XOR:
			return e.tb.Bin(OpBXor, xv, yv)
		case token.AND_NOT:
			return e.tb.Bin(OpBAnd, xv, e.tb.BNot(yv))
		case token.SHL, token.SHR:
			sh := e.shiftAmount(yv, xv.S.W, yt)
			if op == token.SHL {
				return e.tb.Bin(OpShl, xv, sh)
			}
			if signed {
				return e.tb.Bin(OpAShr, xv, sh)
			}
			return e.tb.Bin(OpLShr, xv, sh)
		case token.EQL:
			return e.tb.Eq(xv, yv)
		case token.NEQ:
			return e.tb.Not(e.tb.Eq(xv, yv))
		case token.LSS:
			if signed {
				return e.tb.Cmp(OpSlt, xv, yv)
			}
			return e.tb.Cmp(OpUlt, xv, yv)
		case token.LEQ:
			if signed {
				return e.tb.Cmp(OpSle, xv, yv)
			}
			return e.tb.Cmp(OpUle, xv, yv)
		case token.GTR:
			if signed {
				return e.tb.Cmp(OpSlt, yv, xv)
			}
			return e.tb.Cmp(OpUlt, yv, xv)
		case token.GEQ:
			if signed {
				return e.tb.Cmp(OpSle, yv, xv)
			}
			return e.tb.Cmp(OpUle, yv, xv)
		}
	case float64:
		yv := y.(float64)
		f32 := false
		if b, ok := t.Underlying().(*types.Basic); ok && b.Kind() == types.Float32 {
			f32 = true
		}
		rnd := func(v float64) Value {
			if f32 {
				return float64(float32(v))
			}
			return v
		}
		switch op {
		case token.ADD:
			return rnd(xv + yv)
		case token.SUB:
			return rnd(xv - yv)
		case token.MUL:
			return rnd(xv * yv)
		case token.QUO:
			return rnd(xv / yv)
		case token.EQL:
			return e.tb.Bool(xv == yv)
		case token.NEQ:
			return e.tb.Bool(xv != yv)
		case token.LSS:
			return e.tb.Bool(xv < yv)
		case token.LEQ:
			return e.tb.Bool(xv <= yv)
		case token.GTR:
			return e.tb.Bool(xv > yv)
		case token.GEQ:
			return e.tb.Bool(xv >= yv)
		}
	case Str:
		yv := y.(Str)
		switch op {
		case token.ADD:
			return e.strConcat(xv, yv)
		case token.EQL:
			return e.strEq(xv, yv)
		case token.NEQ:
			return e.tb.Not(e.strEq(xv, yv))
		case token.LSS:
			return e.strLess(xv, yv)
		case token.GTR:
			return e.strLess(yv, xv)
		case token.LEQ:
			return e.tb.Not(e.strLess(yv, xv))
		case token.GEQ:
			return e.tb.Not(e.strLess(xv, yv))
		}
	}
	// pointer laundering idiom (abi.NoEscape): uintptr(p) ^ 0
	if px, ok := x.(Ptr); ok {
		if ty, ok := y.(*Term); ok && ty.IsConst() && ty.C == 0 && (op == token.XOR || op == token.OR || op == token.ADD || op == token.SUB) {
			return px
		}
	}
	switch op {
	case token.EQL:
		return e.eqVal(x, y)
	case token.NEQ:
		return e.tb.Not(e.eqVal(x, y))
	}
	panic(e.unsupported(fmt.Sprintf("binop %s on %T,%T", op, x, y)))
}

// shiftAmount converts a shift count of any integer type to width w, saturating.
func (e *Engine) shiftAmount(y *Term, w int, yt types.Type) *Term {
	if typeSigned(yt) {
		neg := e.tb.Cmp(OpSlt, y, e.tb.Const(y.S.W, 0))
		if e.Branch(neg) {
			panic(e.targetPanicStr("runtime error: negative shift amount"))
		}
	}
	if y.S.W == w {
		return y
	}
	if y.S.W < w {
		return e.tb.ZExt(y, w)
	}
	big := e.tb.Cmp(OpUle, e.tb.Const(y.S.W, uint64(w)), y)
	return e.tb.Ite(big, e.tb.Const(w, uint64(w)), e.tb.Extract(y, w-1, 0))
}

// ---- conversions ----------------------------------------------------------------

func (e *Engine) conv(dst, src types.Type, x Value) Value {
	ud, us := dst.Underlying(), src.Underlying()
	switch us := us.(type) {
	case *types.Pointer:
		return x // to unsafe.Pointer or another pointer type
	case *types.Slice:
		// []byte / []rune -> string
		s := x.(Slice)
		if eb, ok := us.Elem().Underlying().(*types.Basic); ok && eb.Kind() == types.Uint8 {
			bs := make([]*Term, s.Len)
			for i := 0; i < s.Len; i++ {
				bs[i] = s.B.E[s.Off+i].(*Term)
			}
			var tag *Blob
			if s.B != nil && s.Off == 0 && s.Len == len(s.B.E) {
				tag = s.B.Tag
			}
			return e.normStr(bs, tag)
		}
		// []rune -> string (concrete only)
		rs := make([]rune, s.Len)
		for i := 0; i < s.Len; i++ {
			rs[i] = rune(e.concInt(s.B.E[s.Off+i].(*Term), "rune"))
		}
		return Str{S: string(rs)}
	case *types.Basic:
		if us.Kind() == types.UnsafePointer {
			return x
		}
		if us.Info()&types.IsString != 0 {
			s := x.(Str)
			if ds, ok := ud.(*types.Slice); ok {
				eb := ds.Elem().Underlying().(*types.Basic)
				if eb.Kind() == types.Uint8 {
					bs := e.strBytes(s)
					b := &Backing{E: make([]Value, len(bs)), Tag: s.Tag}
					for i, t := range bs {
						b.E[i] = t
					}
					if len(bs) == 0 {
						return Slice{B: b}
					}
					return Slice{B: b, Len: len(bs), Cap: len(bs)}
				}
				// []rune
				if !s.IsConc() {
					panic(e.unsupported("[]rune of symbolic string"))
				}
				rs := []rune(s.S)
				b := &Backing{E: make([]Value, len(rs))}
				for i, r := range rs {
					b.E[i] = e.tb.Const(32, uint64(r))
				}
				return Slice{B: b, Len: len(rs), Cap: len(rs)}
			}
			return x // string -> named string
		}
		db, ok := ud.(*types.Basic)
		if !ok {
			break
		}
		if us.Info()&types.IsInteger != 0 {
			if px, isPtr := x.(Ptr); isPtr {
				return px // laundered pointer travelling as uintptr
			}
			xv := x.(*Term)
			if db.Info()&types.IsInteger != 0 {
				w, _, _ := intWidth(db)
				_, ssigned, _ := intWidth(us)
				if w <= xv.S.W {
					return e.tb.Extract(xv, w-1, 0)
				}
				if ssigned {
					return e.tb.SExt(xv, w)
				}
				return e.tb.ZExt(xv, w)
			}
			if db.Info()&types.IsFloat != 0 {
				_, ssigned, _ := intWidth(us)
				v := e.Concretize(xv, "int->float conversion")
				var f float64
				if ssigned {
					f = float64(sext64(v, xv.S.W))
				} else {
					f = float64(v)
				}
				if db.Kind() == types.Float32 {
					f = float64(float32(f))
				}
				return f
			}
			if db.Info()&types.IsString != 0 {
				v := e.Concretize(xv, "int->string conversion")
				return Str{S: string(rune(sext64(v, xv.S.W)))}
			}
			if db.Kind() == types.UnsafePointer {
				panic(e.unsupported("uintptr -> unsafe.Pointer"))
			}
		}
		if us.Info()&types.IsFloat != 0 {
			f := x.(float64)
			if db.Info()&types.IsFloat != 0 {
				if db.Kind() == types.Float32 {
					return float64(float32(f))
				}
				return f
			}
			if db.Info()&types.IsInteger != 0 {
				w, signed, _ := intWidth(db)
				if math.IsNaN(f) || math.IsInf(f, 0) {
					return e.tb.Const(w, 1<<63)
				}
				if signed {
					return e.tb.Const(w, uint64(int64(f)))
				}
				return e.tb.Const(w, uint64(f))
			}
		}
	}
	panic(e.unsupported(fmt.Sprintf("conversion %s -> %s", src, dst)))
}

// ---- builtins -------------------------------------------------------------------

func (e *Engine) callBuiltin(caller *frame, fn *ssa.Builtin, args []Value) Value {
	switch fn.Name() {
	case "len":
		switch x := args[0].(type) {
		case Str:
			return e.tb.Const(64, uint64(x.Len()))
		case Slice:
			return e.tb.Const(64, uint64(x.Len))
		case *MapObj:
			if x == nil {
				return e.tb.Const(64, 0)
			}
			return e.tb.Const(64, uint64(len(x.Ent)))
		case *ChanObj:
			if x == nil {
				return e.tb.Const(64, 0)
			}
			return e.tb.Const(64, uint64(len(x.Buf)))
		case *Backing:
			return e.tb.Const(64, uint64(len(x.E)))
		case Ptr:
			return e.tb.Const(64, uint64(len(x.B.E[x.I].(*Backing).E)))
		}
	case "cap":
		switch x := args[0].(type) {
		case Slice:
			return e.tb.Const(64, uint64(x.Cap))
		case *ChanObj:
			if x == nil {
				return e.tb.Const(64, 0)
			}
			return e.tb.Const(64, uint64(x.Cap))
		case *Backing:
			return e.tb.Const(64, uint64(len(x.E)))
		case Ptr:
			return e.tb.Const(64, uint64(len(x.B.E[x.I].(*Backing).E)))
		}
	case "append":
		s := args[0].(Slice)
		var add []Value
		switch a := args[1].(type) {
		case Slice:
			for i := 0; i < a.Len; i++ {
				add = append(add, copyVal(a.B.E[a.Off+i]))
			}
		case Str:
			for _, b := range e.strBytes(a) {
				add = append(add, b)
			}
		}
		if len(add) == 0 {
			return s
		}
		if s.Len+len(add) <= s.Cap {
			for i, v := range add {
				s.B.E[s.Off+s.Len+i] = v
			}
			return Slice{B: s.B, Off: s.Off, Len: s.Len + len(add), Cap: s.Cap}
		}
		nc := s.Cap * 2
		if nc < s.Len+len(add) {
			nc = s.Len + len(add)
		}
		if e.allocLimit > 0 && int64(nc) > e.allocLimit*2 {
			e.Assert("alloc.limit", e.tb.False, fmt.Sprintf("append grows to %d elements", nc))
		}
		elemT := fn.Type().(*types.Signature).Results().At(0).Type().Underlying().(*types.Slice).Elem()
		nb := e.newBacking(elemT, nc)
		for i := 0; i < s.Len; i++ {
			nb.E[i] = s.B.E[s.Off+i]
		}
		for i, v := range add {
			nb.E[s.Len+i] = v
		}
		return Slice{B: nb, Off: 0, Len: s.Len + len(add), Cap: nc}
	case "copy":
		d := args[0].(Slice)
		var src []Value
		switch a := args[1].(type) {
		case Slice:
			for i := 0; i < a.Len; i++ {
				src = append(src, a.B.E[a.Off+i])
			}
		case Str:
			for _, b := range e.strBytes(a) {
				src = append(src, b)
			}
		}
		n := len(src)
		if d.Len < n {
			n = d.Len
		}
		tmp := make([]Value, n)
		for i := 0; i < n; i++ {
			tmp[i] = copyVal(src[i])
		}
		for i := 0; i < n; i++ {
			d.B.E[d.Off+i] = tmp[i]
		}
		return e.tb.Const(64, uint64(n))
	case "delete":
		e.mapDelete(args[0].(*MapObj), args[1])
		return nil
	case "close":
		e.chanClose(args[0].(*ChanObj))
		return nil
	case "print", "println":
		return nil
	case "recover":
		return e.doRecover(caller)
	case "min", "max":
		r := args[0]
		for _, a := range args[1:] {
			switch rv := r.(type) {
			case *Term:
				av := a.(*Term)
				signed := typeSigned(fn.Type().(*types.Signature).Params().At(0).Type())
				var lt *Term
				if signed {
					lt = e.tb.Cmp(OpSlt, av, rv)
				} else {
					lt = e.tb.Cmp(OpUlt, av, rv)
				}
				if fn.Name() == "max" {
					lt = e.tb.Not(e.tb.Or(lt, e.tb.Eq(av, rv)))
				}
				r = e.tb.Ite(lt, av, rv)
			case float64:
				if fn.Name() == "min" {
					r = math.Min(rv, a.(float64))
				} else {
					r = math.Max(rv, a.(float64))
				}
			default:
				panic(e.unsupported("min/max on " + fmt.Sprintf("%T", r)))
			}
		}
		return r
	case "clear":
		switch x := args[0].(type) {
		case *MapObj:
			if x != nil {
				x.Ent = nil
			}
		case Slice:
			et := fn.Type().(*types.Signature).Params().At(0).Type().Underlying().(*types.Slice).Elem()
			for i := 0; i < x.Len; i++ {
				x.B.E[x.Off+i] = e.zero(et)
			}
		}
		return nil
	case "ssa:wrapnilchk":
		p := args[0].(Ptr)
		if p.B == nil {
			panic(e.targetPanicStr("value method called using nil pointer"))
		}
		return p
	case "String": // unsafe.String(ptr, len)
		p := args[0].(Ptr)
		n := int(e.concInt(args[1].(*Term), "unsafe.String len"))
		if n == 0 {
			return Str{}
		}
		bs := make([]*Term, n)
		for i := 0; i < n; i++ {
			bs[i] = p.B.E[p.I+i].(*Term)
		}
		var tag *Blob
		if p.I == 0 && n == len(p.B.E) {
			tag = p.B.Tag
		}
		return e.normStr(bs, tag)
	case "SliceData":
		s := args[0].(Slice)
		if s.B == nil {
			return Ptr{}
		}
		return Ptr{B: s.B, I: s.Off}
	case "StringData":
		s := args[0].(Str)
		bs := e.strBytes(s)
		b := &Backing{E: make([]Value, len(bs)), Tag: s.Tag}
		for i, t := range bs {
			b.E[i] = t
		}
		return Ptr{B: b}
	case "Slice": // unsafe.Slice(ptr, len)
		p := args[0].(Ptr)
		n := int(e.concInt(args[1].(*Term), "unsafe.Slice len"))
		if p.B == nil {
			return Slice{}
		}
		return Slice{B: p.B, Off: p.I, Len: n, Cap: len(p.B.E) - p.I}
	}
	panic(e.unsupported("builtin " + fn.Name() + fmt.Sprintf(" on %T", args[0])))
}

func (e *Engine) doRecover(caller *frame) Value {
	// caller is the deferred function's frame; its caller is the panicking frame.
	if caller != nil && !caller.panicking && caller.caller != nil && caller.caller.panicking {
		caller.caller.panicking = false
		p := caller.caller.panicV
		caller.caller.panicV = nil
		if tp, ok := p.(targetPanic); ok {
			if _, isI := tp.v.(Iface); isI {
				return tp.v
			}
			return Iface{T: types.Typ[types.String], V: Str{S: tp.msg}}
		}
	}
	return Iface{}
}

// ---- channels -------------------------------------------------------------------

func (e *Engine) chanSend(c *ChanObj, v Value) {
	e.Yield()
	if c == nil {
		e.Block(func() bool { return false }, "send on nil channel")
	}
	if c.Closed {
		panic(e.targetPanicStr("send on closed channel"))
	}
	if c.Cap > 0 {
		e.Block(func() bool { return len(c.Buf) < c.Cap || c.Closed }, "chan send")
		if c.Closed {
			panic(e.targetPanicStr("send on closed channel"))
		}
		c.Buf = append(c.Buf, copyVal(v))
		return
	}
	// unbuffered: hand over, then wait until taken
	e.Block(func() bool { return len(c.Buf) == 0 || c.Closed }, "chan send")
	if c.Closed {
		panic(e.targetPanicStr("send on closed channel"))
	}
	c.Buf = append(c.Buf, copyVal(v))
	c.sent++
	my := c.sent
	e.Block(func() bool { return c.taken >= my || c.Closed }, "unbuffered chan send (no receiver)")
}

// timerReady: with a pinned, concrete clock a timer fires exactly when the clock has
// reached its next instant (as the real runtime / a synctest bubble does); otherwise
// it may fire at any scheduling point, at most Fires times.
func (e *Engine) timerReady(c *ChanObj) bool {
	if c.Next != nil && e.clockPinned && e.now != nil {
		now := e.subst(e.now)
		if now.IsConst() && c.Next.IsConst() {
			return sext64(now.C, 64) >= sext64(c.Next.C, 64)
		}
	}
	return c.Fires > 0
}

func (e *Engine) timerFired(c *ChanObj) {
	if c.Next != nil && e.clockPinned && e.now != nil && e.subst(e.now).IsConst() && c.Next.IsConst() {
		if c.Period != nil {
			c.Next = e.tb.Bin(OpAdd, c.Next, c.Period)
		} else {
			c.Next = e.tb.Const(64, uint64(1)<<62) // one-shot: never again
		}
		return
	}
	c.Fires--
}

func (e *Engine) chanRecv(c *ChanObj) (Value, bool) {
	e.Yield()
	if c == nil {
		e.Block(func() bool { return false }, "receive from nil channel")
	}
	if c.Timer {
		// a timer delivers at an arbitrary scheduling point, at most Fires times
		e.Block(func() bool { return e.timerReady(c) }, "timer receive (timer never fires again within the tick bound)")
		e.timerFired(c)
		return e.mkTime(e.clockNow()), true
	}
	c.recvWaiting++
	e.Block(func() bool { return len(c.Buf) > 0 || c.Closed }, "chan receive")
	c.recvWaiting--
	if len(c.Buf) > 0 {
		v := c.Buf[0]
		c.Buf = c.Buf[1:]
		c.taken++
		return v, true
	}
	return e.zero(c.ElemT), false
}

func (e *Engine) chanClose(c *ChanObj) {
	e.Yield()
	if c == nil {
		panic(e.targetPanicStr("close of nil channel"))
	}
	if c.Closed {
		panic(e.targetPanicStr("close of closed channel"))
	}
	c.Closed = true
}

func (e *Engine) selectOp(fr *frame, in *ssa.Select) Value {
	e.Yield()
	type cs struct {
		ch   *ChanObj
		send Value
		dir  types.ChanDir
	}
	var cases []cs
	for _, st := range in.States {
		c := cs{ch: fr.get(st.Chan).(*ChanObj), dir: st.Dir}
		if st.Send != nil {
			c.send = fr.get(st.Send)
		}
		cases = append(cases, c)
	}
	enabled := func() []int {
		var r []int
		for i, c := range cases {
			if c.ch == nil {
				continue
			}
			if c.dir == types.RecvOnly {
				if len(c.ch.Buf) > 0 || c.ch.Closed || (c.ch.Timer && e.timerReady(c.ch)) {
					r = append(r, i)
				}
			} else {
				if c.ch.Closed || (c.ch.Cap > 0 && len(c.ch.Buf) < c.ch.Cap) || (c.ch.Cap == 0 && c.ch.recvWaiting > 0) {
					r = append(r, i)
				}
			}
		}
		return r
	}
	en := enabled()
	chosen := -1
	if len(en) == 0 {
		if !in.Blocking {
			chosen = -1
		} else {
			e.Block(func() bool { return len(enabled()) > 0 }, "select")
			en = enabled()
		}
	}
	if len(en) > 0 {
		// timers are optional alternatives: with a non-blocking select the default is also possible
		opts := append([]int{}, en...)
		onlyTimers := true
		for _, i := range en {
			if !cases[i].ch.Timer {
				onlyTimers = false
			}
		}
		if !in.Blocking && onlyTimers {
			opts = append(opts, len(cases)) // default
		}
		c := e.chooseAmong(opts)
		if c == len(cases) {
			chosen = -1
		} else {
			chosen = c
		}
	}
	r := Tuple{e.tb.Const(64, uint64(int64(chosen))), e.tb.False}
	recvOk := false
	var recvVals []Value
	for i, c := range cases {
		if c.dir != types.RecvOnly {
			continue
		}
		var v Value
		if c.ch != nil {
			v = e.zero(c.ch.ElemT)
		} else {
			v = e.zero(in.States[i].Chan.Type().Underlying().(*types.Chan).Elem())
		}
		if i == chosen {
			if c.ch.Timer {
				recvOk = true
				e.timerFired(c.ch)
				v = e.mkTime(e.clockNow())
			} else if len(c.ch.Buf) > 0 {
				v = c.ch.Buf[0]
				c.ch.Buf = c.ch.Buf[1:]
				c.ch.taken++
				recvOk = true
			}
		}
		recvVals = append(recvVals, v)
	}
	if chosen >= 0 && cases[chosen].dir == types.SendOnly {
		c := cases[chosen]
		if c.ch.Closed {
			panic(e.targetPanicStr("send on closed channel"))
		}
		c.ch.Buf = append(c.ch.Buf, copyVal(c.send))
		c.ch.sent++
	}
	r[1] = e.tb.Bool(recvOk)
	r = append(r, recvVals...)
	return r
}
