package engine

import (
	"bufio"
	"fmt"
	"io"
	"os/exec"
	"regexp"
	"strconv"
	"strings"
	"time"
)

// Solver drives one long-lived SMT solver process over stdin/stdout with
// push/pop scopes. Any "(error" line makes the answer "unknown" (inconclusive).

type Solver struct {
	Bin       string
	Args      []string
	tb        *TB
	cmd       *exec.Cmd
	in        io.WriteCloser
	out       *bufio.Reader
	scopes    []map[int]bool
	asserted  [][]*Term
	ufIDs     map[string]int
	TimeoutMs int
	LogAll    bool
	// stats
	NSat, NUnsat, NUnknown int
	SolverTime             time.Duration
	Transcript             *strings.Builder // when non-nil, records everything sent
	Errors                 []string
	lines                  chan string
}

func NewSolver(tb *TB, bin string, args []string, timeoutMs int) (*Solver, error) {
	s := &Solver{Bin: bin, Args: args, tb: tb, TimeoutMs: timeoutMs}
	if err := s.start(); err != nil {
		return nil, err
	}
	return s, nil
}

func (s *Solver) start() error {
	s.cmd = exec.Command(s.Bin, s.Args...)
	in, err := s.cmd.StdinPipe()
	if err != nil {
		return err
	}
	outp, err := s.cmd.StdoutPipe()
	if err != nil {
		return err
	}
	s.cmd.Stderr = nil
	if err := s.cmd.Start(); err != nil {
		return err
	}
	s.in = in
	s.out = bufio.NewReaderSize(outp, 1<<16)
	s.lines = make(chan string, 64)
	go func(r *bufio.Reader, ch chan string) {
		for {
			l, err := r.ReadString('\n')
			if l != "" {
				ch <- l
			}
			if err != nil {
				close(ch)
				return
			}
		}
	}(s.out, s.lines)
	s.scopes = []map[int]bool{{}}
	s.asserted = [][]*Term{nil}
	s.send("(set-option :print-success false)")
	if strings.Contains(s.Bin, "z3") {
		s.send(fmt.Sprintf("(set-option :timeout %d)", s.TimeoutMs))
	}
	s.send("(set-option :produce-models true)")
	if strings.Contains(s.Bin, "cvc5") {
		s.send("(set-logic ALL)")
	}
	return nil
}

func (s *Solver) Close() {
	if s.cmd != nil {
		s.in.Close()
		s.cmd.Process.Kill()
		s.cmd.Wait()
		s.cmd = nil
	}
}

var SessionLog io.Writer

func (s *Solver) send(line string) {
	if SessionLog != nil && s.LogAll {
		io.WriteString(SessionLog, line+"\n")
	}
	if s.Transcript != nil {
		s.Transcript.WriteString(line)
		s.Transcript.WriteByte('\n')
	}
	io.WriteString(s.in, line)
	io.WriteString(s.in, "\n")
}

// Reset drops everything (used between paths).
func (s *Solver) Reset() {
	s.send("(reset)")
	s.scopes = []map[int]bool{{}}
	s.asserted = [][]*Term{nil}
	s.send("(set-option :print-success false)")
	if strings.Contains(s.Bin, "z3") {
		s.send(fmt.Sprintf("(set-option :timeout %d)", s.TimeoutMs))
	}
	s.send("(set-option :produce-models true)")
	if strings.Contains(s.Bin, "cvc5") {
		s.send("(set-logic ALL)")
	}
}

func (s *Solver) Push() {
	s.send("(push 1)")
	s.scopes = append(s.scopes, map[int]bool{})
	s.asserted = append(s.asserted, nil)
}

func (s *Solver) Pop() {
	s.send("(pop 1)")
	s.scopes = s.scopes[:len(s.scopes)-1]
	s.asserted = s.asserted[:len(s.asserted)-1]
}

func (s *Solver) isDeclared(id int) bool {
	for _, sc := range s.scopes {
		if sc[id] {
			return true
		}
	}
	return false
}

func (s *Solver) markDeclared(id int) { s.scopes[len(s.scopes)-1][id] = true }

func termName(t *Term) string {
	switch t.Op {
	case OpVar:
		return t.Name
	case OpUF:
		return ufAppName(t)
	}
	return "t!" + strconv.Itoa(t.ID)
}

const inlineSize = 8

// ref returns SMT text denoting t, emitting declarations/definitions as needed.
func (s *Solver) ref(t *Term) string {
	switch t.Op {
	case OpConst:
		return constSMT(t)
	case OpVar:
		if !s.isDeclared(t.ID) {
			s.send(fmt.Sprintf("(declare-const %s %s)", t.Name, t.S.SMT()))
			s.markDeclared(t.ID)
		}
		return t.Name
	}
	if s.isDeclared(t.ID) {
		return termName(t)
	}
	if t.size <= inlineSize && t.Op != OpUF {
		return s.body(t)
	}
	b := s.body(t)
	s.send(fmt.Sprintf("(define-fun %s () %s %s)", termName(t), t.S.SMT(), b))
	s.markDeclared(t.ID)
	return termName(t)
}

func (s *Solver) body(t *Term) string {
	args := make([]string, len(t.A))
	for i, a := range t.A {
		args[i] = s.ref(a)
	}
	switch t.Op {
	case OpExtract:
		return fmt.Sprintf("((_ extract %d %d) %s)", t.Hi, t.Lo, args[0])
	case OpZExt:
		return fmt.Sprintf("((_ zero_extend %d) %s)", t.Hi, args[0])
	case OpSExt:
		return fmt.Sprintf("((_ sign_extend %d) %s)", t.Hi, args[0])
	case OpUF:
		if !s.isDeclared(s.ufID(t.Name)) {
			sig := s.tb.ufSigs[t.Name]
			var as []string
			for _, a := range sig.args {
				as = append(as, a.SMT())
			}
			s.send(fmt.Sprintf("(declare-fun %s (%s) %s)", t.Name, strings.Join(as, " "), sig.ret.SMT()))
			s.markDeclared(s.ufID(t.Name))
		}
		if len(args) == 0 {
			return t.Name
		}
		return fmt.Sprintf("(%s %s)", t.Name, strings.Join(args, " "))
	}
	return fmt.Sprintf("(%s %s)", opSMT[t.Op], strings.Join(args, " "))
}

// ufID gives each UF name a negative pseudo term id so that its declaration is
// tracked per scope like any other declaration.
func (s *Solver) ufID(name string) int {
	if s.ufIDs == nil {
		s.ufIDs = map[string]int{}
	}
	if v, ok := s.ufIDs[name]; ok {
		return v
	}
	id := -1 - len(s.ufIDs)
	s.ufIDs[name] = id
	return id
}

func (s *Solver) Assert(t *Term) {
	if t.IsTrue() {
		return
	}
	r := s.ref(t)
	s.send("(assert " + r + ")")
	s.asserted[len(s.asserted)-1] = append(s.asserted[len(s.asserted)-1], t)
}

func (s *Solver) readLine(limit time.Duration) (string, bool) {
	select {
	case l, ok := <-s.lines:
		if !ok {
			return "", false
		}
		return strings.TrimRight(l, "\r\n"), true
	case <-time.After(limit):
		return "", false
	}
}

var valRe = regexp.MustCompile(`\(\s*([^\s()]+)\s+(#x[0-9a-fA-F]+|#b[01]+|true|false)\s*\)`)

// Check decides satisfiability of the current assertions plus extra.
// names lists the variables/UF applications whose values are wanted on sat.
func (s *Solver) Check(extra []*Term, want []*Term) (string, Model) {
	t0 := time.Now()
	defer func() { s.SolverTime += time.Since(t0) }()
	if len(extra) > 0 {
		s.Push()
		for _, e := range extra {
			s.Assert(e)
		}
		defer s.Pop()
	}
	// make sure all wanted terms are declared before check-sat
	var names []string
	for _, w := range want {
		if w.Op == OpVar || w.Op == OpUF {
			if w.Op == OpUF || s.isDeclared(w.ID) {
				if w.Op == OpUF && !s.isDeclared(w.ID) {
					continue
				}
				names = append(names, termName(w))
			}
		}
	}
	s.send("(check-sat)")
	limit := time.Duration(s.TimeoutMs)*time.Millisecond*2 + 5*time.Second
	res := ""
	for {
		l, ok := s.readLine(limit)
		if !ok {
			s.Errors = append(s.Errors, "solver timeout/closed; restarting")
			s.restart()
			s.NUnknown++
			return "unknown", nil
		}
		l = strings.TrimSpace(l)
		if l == "" {
			continue
		}
		if strings.HasPrefix(l, "(error") {
			s.Errors = append(s.Errors, l)
			res = "error"
			continue
		}
		if l == "sat" || l == "unsat" || l == "unknown" || l == "timeout" {
			if res == "" {
				res = l
			}
			break
		}
		if strings.HasPrefix(l, "unsupported") || strings.HasPrefix(l, ";") {
			continue
		}
		s.Errors = append(s.Errors, "unexpected solver output: "+l)
		res = "error"
	}
	switch res {
	case "unsat":
		s.NUnsat++
		return "unsat", nil
	case "sat":
		s.NSat++
	default:
		s.NUnknown++
		return "unknown", nil
	}
	m := Model{}
	if len(names) > 0 {
		// chunk to keep lines manageable
		for i := 0; i < len(names); i += 400 {
			j := i + 400
			if j > len(names) {
				j = len(names)
			}
			s.send("(get-value (" + strings.Join(names[i:j], " ") + "))")
			depth := 0
			var sb strings.Builder
			started := false
			for {
				l, ok := s.readLine(limit)
				if !ok {
					s.Errors = append(s.Errors, "solver closed during get-value")
					s.restart()
					return "unknown", nil
				}
				if strings.HasPrefix(strings.TrimSpace(l), "(error") {
					s.Errors = append(s.Errors, l)
					return "unknown", nil
				}
				sb.WriteString(l)
				sb.WriteByte('\n')
				for _, c := range l {
					if c == '(' {
						depth++
						started = true
					} else if c == ')' {
						depth--
					}
				}
				if started && depth <= 0 {
					break
				}
			}
			for _, mm := range valRe.FindAllStringSubmatch(sb.String(), -1) {
				m[mm[1]] = parseVal(mm[2])
			}
		}
	}
	return "sat", m
}

func parseVal(v string) uint64 {
	switch {
	case v == "true":
		return 1
	case v == "false":
		return 0
	case strings.HasPrefix(v, "#x"):
		u, _ := strconv.ParseUint(v[2:], 16, 64)
		return u
	case strings.HasPrefix(v, "#b"):
		u, _ := strconv.ParseUint(v[2:], 2, 64)
		return u
	}
	return 0
}

// restart kills the process and rebuilds the assertion stack.
func (s *Solver) restart() {
	old := s.asserted
	s.Close()
	if err := s.start(); err != nil {
		panic("cannot restart solver: " + err.Error())
	}
	for i, lvl := range old {
		if i > 0 {
			s.Push()
		}
		for _, t := range lvl {
			s.Assert(t)
		}
	}
}

// RunScript feeds a complete SMT-LIB script to a fresh solver process and
// returns the sequence of check-sat answers (used for cross-checking).
func RunScript(bin string, args []string, script string, timeout time.Duration) ([]string, error) {
	cmd := exec.Command(bin, args...)
	cmd.Stdin = strings.NewReader(script + "\n(exit)\n")
	done := make(chan struct{})
	var out []byte
	var err error
	go func() { out, err = cmd.Output(); close(done) }()
	select {
	case <-done:
	case <-time.After(timeout):
		if cmd.Process != nil {
			cmd.Process.Kill()
		}
		<-done
		return nil, fmt.Errorf("timeout")
	}
	var res []string
	for _, l := range strings.Split(string(out), "\n") {
		l = strings.TrimSpace(l)
		switch {
		case l == "sat" || l == "unsat" || l == "unknown":
			res = append(res, l)
		case strings.HasPrefix(l, "(error"):
			res = append(res, "error")
		}
	}
	_ = err
	return res, nil
}
