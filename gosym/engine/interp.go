package engine

import (
	"runtime"
	"fmt"
	"go/constant"
	"go/token"
	"go/types"
	"strings"

	"golang.org/x/tools/go/ssa"
)

type deferred struct {
	fn    Value
	args  []Value
	instr *ssa.Defer
	tail  *deferred
}

type frame struct {
	e         *Engine
	th        *Thread
	caller    *frame
	fn        *ssa.Function
	block     *ssa.BasicBlock
	prev      *ssa.BasicBlock
	env       map[ssa.Value]Value
	defers    *deferred
	result    Value
	panicking bool
	panicV    interface{}
	visits    map[*ssa.BasicBlock]int
}

func (fr *frame) get(v ssa.Value) Value {
	switch v := v.(type) {
	case nil:
		return nil
	case *ssa.Function:
		return v
	case *ssa.Builtin:
		return v
	case *ssa.Const:
		return fr.e.constValue(v)
	case *ssa.Global:
		return fr.e.globalPtr(v)
	}
	if r, ok := fr.env[v]; ok {
		return r
	}
	panic(fmt.Sprintf("get: no value for %T %s in %s", v, v.Name(), fr.fn))
}

func (e *Engine) constValue(c *ssa.Const) Value {
	t := c.Type()
	if c.Value == nil {
		return e.zero(t)
	}
	u := t.Underlying()
	if tp, ok := u.(*types.TypeParam); ok {
		_ = tp
		panic(e.unsupported("constant of type parameter type"))
	}
	b, ok := u.(*types.Basic)
	if !ok {
		panic(e.unsupported("constant of type " + t.String()))
	}
	switch {
	case b.Info()&types.IsBoolean != 0:
		return e.tb.Bool(constant.BoolVal(c.Value))
	case b.Info()&types.IsInteger != 0:
		w, signed, _ := intWidth(b)
		if signed {
			return e.tb.Const(w, uint64(c.Int64()))
		}
		return e.tb.Const(w, c.Uint64())
	case b.Info()&types.IsFloat != 0:
		return c.Float64()
	case b.Info()&types.IsString != 0:
		return Str{S: constant.StringVal(c.Value)}
	case b.Info()&types.IsComplex != 0:
		return c.Complex128()
	}
	panic(e.unsupported("constant kind " + b.String()))
}

// ---- globals and lazy package initialisation ------------------------------------

func (e *Engine) globalPtr(g *ssa.Global) Ptr {
	repo := isRepoPkg(g.Pkg, e.cfg.RepoModule)
	var tab map[*ssa.Global]*Backing
	if repo {
		tab = e.globals
	} else {
		tab = e.stableGlobals
	}
	if b, ok := tab[g]; ok {
		return Ptr{B: b}
	}
	// allocate all globals of the package, then run its initializer
	pkg := g.Pkg
	for _, m := range pkg.Members {
		if gg, ok := m.(*ssa.Global); ok {
			if _, have := tab[gg]; !have {
				tab[gg] = &Backing{E: []Value{e.zero(mustDeref(gg.Type()))}}
			}
		}
	}
	if b, ok := tab[g]; ok {
		e.initPackage(pkg, repo)
		return Ptr{B: b}
	}
	// global not in Members (e.g. init$guard is); allocate alone
	b := &Backing{E: []Value{e.zero(mustDeref(g.Type()))}}
	tab[g] = b
	return Ptr{B: b}
}

func (e *Engine) initPackage(pkg *ssa.Package, repo bool) {
	if repo {
		if e.pkgInit[pkg] {
			return
		}
		e.pkgInit[pkg] = true
	} else {
		if e.stableInit[pkg] {
			return
		}
		e.stableInit[pkg] = true
	}
	initFn := pkg.Func("init")
	if initFn == nil || initFn.Blocks == nil {
		return
	}
	e.inInit++
	defer func() {
		e.inInit--
		if r := recover(); r != nil {
			switch p := r.(type) {
			case pathEnd:
				if p.kind == "unsupported" || p.kind == "budget" {
					// partial initialisation: remaining globals keep zero values
					if e.cfg.Trace {
						fmt.Printf("init of %s incomplete: %s\n", pkg.Pkg.Path(), p.msg)
					}
					e.initWarn = append(e.initWarn, pkg.Pkg.Path()+": "+p.msg)
					return
				}
				panic(r)
			case targetPanic:
				e.initWarn = append(e.initWarn, pkg.Pkg.Path()+": panic in init: "+p.msg)
				return
			default:
				panic(r)
			}
		}
	}()
	e.call(nil, e.cur, initFn, nil, token.NoPos)
}

func mustDeref(t types.Type) types.Type {
	if p, ok := t.Underlying().(*types.Pointer); ok {
		return p.Elem()
	}
	panic("mustDeref: not a pointer: " + t.String())
}

// ---- calls ------------------------------------------------------------------------

func (e *Engine) prepareCall(fr *frame, cc *ssa.CallCommon) (fn Value, args []Value) {
	v := fr.get(cc.Value)
	if cc.Method == nil {
		fn = v
	} else {
		recv, ok := v.(Iface)
		if !ok || recv.T == nil {
			panic(e.targetPanicStr("invalid memory address or nil pointer dereference (method " + cc.Method.Name() + " on nil interface)"))
		}
		f := e.prog.LookupMethod(recv.T, cc.Method.Pkg(), cc.Method.Name())
		if f == nil {
			panic(e.unsupported(fmt.Sprintf("no method %s for dynamic type %s", cc.Method.Name(), recv.T)))
		}
		fn = f
		args = append(args, recv.V)
	}
	for _, a := range cc.Args {
		args = append(args, fr.get(a))
	}
	return
}

func (e *Engine) call(caller *frame, th *Thread, fn Value, args []Value, pos token.Pos) Value {
	switch f := fn.(type) {
	case *ssa.Function:
		return e.callSSA(caller, th, f, args, nil)
	case *Closure:
		return e.callSSA(caller, th, f.Fn, args, f.Env)
	case *ssa.Builtin:
		return e.callBuiltin(caller, f, args)
	case nilFunc:
		panic(e.targetPanicStr("invalid memory address or nil pointer dereference (call of nil func)"))
	}
	panic(e.unsupported(fmt.Sprintf("call of %T", fn)))
}

func funcKey(fn *ssa.Function) string {
	if o := fn.Origin(); o != nil {
		return o.String()
	}
	return fn.String()
}

func (e *Engine) callSSA(caller *frame, th *Thread, fn *ssa.Function, args []Value, env []Value) Value {
	fr := &frame{e: e, th: th, caller: caller, fn: fn}
	if DebugForks {
		e.lastFn = fn.String()
	}
	if fn.Parent() == nil {
		name := fn.Name()
		if strings.HasPrefix(name, "verif_") {
			if ic, ok := verifAPI[name]; ok {
				return ic(e, fr, args)
			}
		}
		key := funcKey(fn)
		if st, ok := e.cfg.Stubs[key]; ok && st != fn {
			return e.callSSA(caller, th, st, args, nil)
		}
		if ic, ok := intercepts[key]; ok {
			return ic(e, fr, args)
		}
		if e.inInit > 0 && name == "init" && fn.Synthetic != "" && len(args) == 0 && caller != nil && caller.fn.Name() == "init" && caller.fn.Pkg != fn.Pkg {
			// dependency initialisers run lazily on first global access
			return nil
		}
		if fn.Blocks == nil {
			if ic := interceptByPattern(key); ic != nil {
				return ic(e, fr, args)
			}
			panic(e.unsupported("no code for function: " + key))
		}
		if ic := interceptByPattern(key); ic != nil {
			return ic(e, fr, args)
		}
	}
	if fn.Blocks == nil {
		panic(e.unsupported("no code for function: " + fn.String()))
	}
	if fn.TypeParams().Len() > 0 && len(fn.TypeArgs()) == 0 {
		panic(e.unsupported("uninstantiated generic function " + fn.String()))
	}
	if e.res != nil && e.inInit == 0 && fn.Pkg != nil && isRepoPkg(fn.Pkg, e.cfg.RepoModule) {
		e.res.Funcs[fn.String()] = true
	} else if e.res != nil && e.inInit == 0 && fn.Pkg == nil && fn.Origin() != nil && isRepoPkg(fn.Origin().Pkg, e.cfg.RepoModule) {
		e.res.Funcs[fn.String()] = true
	}
	depth := 0
	for c := caller; c != nil; c = c.caller {
		depth++
		if depth > 400 {
			panic(e.unsupported("call depth exceeded in " + fn.String()))
		}
	}
	fr.env = make(map[ssa.Value]Value, 16)
	fr.block = fn.Blocks[0]
	for _, l := range fn.Locals {
		fr.env[l] = Ptr{B: &Backing{E: []Value{e.zero(mustDeref(l.Type()))}}}
	}
	for i, p := range fn.Params {
		fr.env[p] = args[i]
	}
	for i, fv := range fn.FreeVars {
		fr.env[fv] = env[i]
	}
	for fr.block != nil {
		e.runFrame(fr)
	}
	return fr.result
}

func isEngineSignal(r interface{}) bool {
	_, ok := r.(pathEnd)
	return ok
}

func (e *Engine) runFrame(fr *frame) {
	defer func() {
		if fr.block == nil {
			return
		}
		r := recover()
		if r == nil {
			return
		}
		if re, isRT := r.(runtime.Error); isRT {
			// a Go runtime error inside the interpreter itself: the engine does not model
			// something on this path. Report it as unsupported (inconclusive), never as a finding.
			panic(pathEnd{"unsupported", fmt.Sprintf("engine limitation in %s: %v", fr.fn, re)})
		}
		if _, ok := r.(targetPanic); !ok {
			panic(r) // engine signal or engine bug: unwind without running target defers
		}
		fr.panicking = true
		fr.panicV = r
		fr.runDefers()
		fr.block = fr.fn.Recover
		if fr.block == nil {
			// recovered, no named results: return zero values
			fr.result = e.zeroResults(fr.fn)
		}
	}()
	for {
		if len(fr.block.Preds) > 1 || fr.block.Index == 0 {
			// potential loop head: fuel check
			if fr.visits == nil {
				fr.visits = map[*ssa.BasicBlock]int{}
			}
			fr.visits[fr.block]++
			if fr.visits[fr.block] > e.cfg.LoopFuel {
				panic(pathEnd{"budget", fmt.Sprintf("loop fuel exhausted in %s block %d", fr.fn, fr.block.Index)})
			}
		}
		instrs := fr.block.Instrs
		// phis (parallel assignment)
		n := 0
		for n < len(instrs) {
			if _, ok := instrs[n].(*ssa.Phi); !ok {
				break
			}
			n++
		}
		if n > 0 {
			pi := -1
			for i, p := range fr.block.Preds {
				if p == fr.prev {
					pi = i
					break
				}
			}
			tmp := make([]Value, n)
			for i := 0; i < n; i++ {
				tmp[i] = fr.get(instrs[i].(*ssa.Phi).Edges[pi])
			}
			for i := 0; i < n; i++ {
				fr.env[instrs[i].(*ssa.Phi)] = tmp[i]
			}
		}
		jumped := false
		for _, in := range instrs[n:] {
			e.steps++
			if e.steps > e.cfg.MaxSteps {
				panic(pathEnd{"budget", "instruction budget exhausted in " + fr.fn.String()})
			}
			if e.cfg.Trace {
				if v, ok := in.(ssa.Value); ok {
					fmt.Printf("  [%s] %s = %s\n", fr.fn.Name(), v.Name(), in)
				} else {
					fmt.Printf("  [%s] %s\n", fr.fn.Name(), in)
				}
			}
			switch e.visit(fr, in) {
			case kReturn:
				return
			case kJump:
				jumped = true
			}
			if jumped {
				break
			}
		}
		if !jumped {
			panic("block fell through: " + fr.fn.String())
		}
	}
}

func (e *Engine) zeroResults(fn *ssa.Function) Value {
	res := fn.Signature.Results()
	switch res.Len() {
	case 0:
		return nil
	case 1:
		return e.zero(res.At(0).Type())
	}
	return e.zero(res)
}

func (fr *frame) runDefer(d *deferred) {
	var ok bool
	defer func() {
		if !ok {
			r := recover()
			if _, isTP := r.(targetPanic); !isTP {
				panic(r)
			}
			fr.panicking = true
			fr.panicV = r
		}
	}()
	fr.e.call(fr, fr.th, d.fn, d.args, d.instr.Pos())
	ok = true
}

func (fr *frame) runDefers() {
	for d := fr.defers; d != nil; d = d.tail {
		fr.runDefer(d)
	}
	fr.defers = nil
	if fr.panicking {
		panic(fr.panicV)
	}
}

type cont int

const (
	kNext cont = iota
	kReturn
	kJump
)

func (e *Engine) visit(fr *frame, instr ssa.Instruction) cont {
	switch in := instr.(type) {
	case *ssa.DebugRef:
	case *ssa.UnOp:
		fr.env[in] = e.unop(fr, in, fr.get(in.X))
	case *ssa.BinOp:
		fr.env[in] = e.binop(in.Op, in.X.Type(), fr.get(in.X), fr.get(in.Y), in.Y.Type())
	case *ssa.Call:
		fn, args := e.prepareCall(fr, &in.Call)
		fr.env[in] = e.call(fr, fr.th, fn, args, in.Pos())
	case *ssa.ChangeInterface:
		fr.env[in] = fr.get(in.X)
	case *ssa.ChangeType:
		fr.env[in] = fr.get(in.X)
	case *ssa.Convert:
		fr.env[in] = e.conv(in.Type(), in.X.Type(), fr.get(in.X))
	case *ssa.MakeInterface:
		fr.env[in] = Iface{T: in.X.Type(), V: fr.get(in.X)}
	case *ssa.Extract:
		fr.env[in] = fr.get(in.Tuple).(Tuple)[in.Index]
	case *ssa.Slice:
		fr.env[in] = e.sliceOp(fr, in)
	case *ssa.Return:
		switch len(in.Results) {
		case 0:
		case 1:
			fr.result = fr.get(in.Results[0])
		default:
			res := make(Tuple, len(in.Results))
			for i, r := range in.Results {
				res[i] = fr.get(r)
			}
			fr.result = res
		}
		fr.block = nil
		return kReturn
	case *ssa.RunDefers:
		fr.runDefers()
	case *ssa.Panic:
		v := fr.get(in.X)
		panic(targetPanic{v: v, msg: e.panicString(v)})
	case *ssa.Send:
		e.chanSend(fr.get(in.Chan).(*ChanObj), fr.get(in.X))
	case *ssa.Store:
		e.store(fr.get(in.Addr).(Ptr), fr.get(in.Val))
	case *ssa.If:
		c := fr.get(in.Cond).(*Term)
		succ := 1
		if e.Branch(c) {
			succ = 0
		}
		fr.prev, fr.block = fr.block, fr.block.Succs[succ]
		return kJump
	case *ssa.Jump:
		fr.prev, fr.block = fr.block, fr.block.Succs[0]
		return kJump
	case *ssa.Defer:
		fn, args := e.prepareCall(fr, &in.Call)
		if in.DeferStack != nil {
			panic(e.unsupported("defer with explicit defer stack (range-over-func)"))
		}
		fr.defers = &deferred{fn: fn, args: args, instr: in, tail: fr.defers}
	case *ssa.Go:
		fn, args := e.prepareCall(fr, &in.Call)
		name := "go"
		switch f := fn.(type) {
		case *ssa.Function:
			name = f.Name()
		case *Closure:
			name = f.Fn.Name()
		}
		e.Spawn(name, func(t *Thread) {
			e.call(nil, t, fn, args, in.Pos())
		})
		e.Yield()
	case *ssa.MakeChan:
		sz := e.concInt(fr.get(in.Size).(*Term), "chan size")
		fr.env[in] = &ChanObj{Cap: int(sz), ElemT: in.Type().Underlying().(*types.Chan).Elem()}
	case *ssa.Alloc:
		t := mustDeref(in.Type())
		if in.Heap {
			fr.env[in] = Ptr{B: &Backing{E: []Value{e.zero(t)}}}
		} else {
			p := fr.env[in].(Ptr)
			p.B.E[0] = e.zero(t)
		}
	case *ssa.MakeSlice:
		fr.env[in] = e.makeSlice(in, fr.get(in.Len).(*Term), fr.get(in.Cap).(*Term))
	case *ssa.MakeMap:
		fr.env[in] = &MapObj{KeyT: in.Type().Underlying().(*types.Map).Key()}
	case *ssa.Range:
		fr.env[in] = e.rangeIter(fr.get(in.X), in.X.Type())
	case *ssa.Next:
		fr.env[in] = fr.get(in.Iter).(iterator).next(e)
	case *ssa.FieldAddr:
		p := e.concPtr(fr.get(in.X).(Ptr))
		if p.B == nil {
			panic(e.targetPanicStr("invalid memory address or nil pointer dereference"))
		}
		sb := p.B.E[p.I].(*Backing)
		fr.env[in] = Ptr{B: sb, I: in.Field}
	case *ssa.Field:
		fr.env[in] = copyVal(fr.get(in.X).(*Backing).E[in.Field])
	case *ssa.IndexAddr:
		fr.env[in] = e.indexAddr(fr.get(in.X), fr.get(in.Index).(*Term), in.Index.Type())
	case *ssa.Index:
		fr.env[in] = e.indexVal(fr.get(in.X), fr.get(in.Index).(*Term), in.Index.Type())
	case *ssa.Lookup:
		fr.env[in] = e.lookup(in, fr.get(in.X), fr.get(in.Index))
	case *ssa.MapUpdate:
		m := fr.get(in.Map).(*MapObj)
		if m == nil {
			panic(e.targetPanicStr("assignment to entry in nil map"))
		}
		e.mapSet(m, fr.get(in.Key), copyVal(fr.get(in.Value)))
	case *ssa.TypeAssert:
		fr.env[in] = e.typeAssert(in, fr.get(in.X).(Iface))
	case *ssa.MakeClosure:
		var b []Value
		for _, x := range in.Bindings {
			b = append(b, fr.get(x))
		}
		fr.env[in] = &Closure{Fn: in.Fn.(*ssa.Function), Env: b}
	case *ssa.Select:
		fr.env[in] = e.selectOp(fr, in)
	case *ssa.SliceToArrayPointer:
		s := fr.get(in.X).(Slice)
		n := int(mustDeref(in.Type()).Underlying().(*types.Array).Len())
		if s.Len < n {
			panic(e.targetPanicStr("cannot convert slice to array pointer: length too short"))
		}
		if s.B == nil {
			fr.env[in] = Ptr{}
		} else if s.Off == 0 && len(s.B.E) == n {
			fr.env[in] = Ptr{B: &Backing{E: []Value{s.B}}}
		} else {
			panic(e.unsupported("slice to array pointer with offset"))
		}
	default:
		panic(e.unsupported(fmt.Sprintf("instruction %T", instr)))
	}
	return kNext
}

// concInt returns a concrete signed value for t, case-splitting if needed.
func (e *Engine) concInt(t *Term, what string) int64 {
	v := e.Concretize(t, what)
	return sext64(v, t.S.W)
}

func (e *Engine) concPtr(p Ptr) Ptr {
	if p.Sym != nil {
		k := e.Concretize(p.Sym, "pointer index")
		return Ptr{B: p.B, I: p.I + int(k)}
	}
	return p
}

// ---- type assertions ------------------------------------------------------------

func (e *Engine) typeAssert(in *ssa.TypeAssert, x Iface) Value {
	var ok bool
	var v Value
	if itf, isItf := in.AssertedType.Underlying().(*types.Interface); isItf {
		if x.T != nil {
			if m, _ := types.MissingMethod(x.T, itf, true); m == nil {
				ok = true
				v = x
			}
		}
	} else if x.T != nil && types.Identical(x.T, in.AssertedType) {
		ok = true
		v = copyVal(x.V)
	}
	if in.CommaOk {
		if !ok {
			v = e.zero(in.AssertedType)
		}
		return Tuple{v, e.tb.Bool(ok)}
	}
	if !ok {
		have := "nil"
		if x.T != nil {
			have = x.T.String()
		}
		panic(e.targetPanicStr(fmt.Sprintf("interface conversion: interface is %s, not %s", have, in.AssertedType)))
	}
	return v
}
