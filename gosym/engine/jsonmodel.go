package engine

// Structural model of encoding/json for round trips between *different* Go types
// (a handler's private request struct vs. the sender's, map[string]interface{} responses,
// json.RawMessage, concrete JSON text literals). A marshalled value is abstracted to a
// JSON tree whose leaves are the engine's own values (so symbolic leaves stay symbolic);
// Unmarshal populates the destination type from the tree by field name exactly like
// encoding/json (tags, omitempty, "-", embedded structs, case-insensitive match, unknown
// keys ignored, absent keys keep the old value).
//
// Approximations (stated in DESIGN.md): custom MarshalJSON/UnmarshalJSON methods are ignored
// (struct shape is used; time.Time is an opaque leaf), integer overflow on narrowing is
// not reported as an error, a kind mismatch returns an error without partial filling,
// HTML escaping/invalid UTF-8 are not modelled, map keys must be concrete strings.

import (
	"encoding/base64"
	"bytes"
	"encoding/json"
	"fmt"
	"go/types"
	"reflect"
	"sort"
	"strings"
)

type jkind int

const (
	jNull jkind = iota
	jBool
	jNum
	jStr
	jArr
	jObj
	jOpaque // time.Time, []byte: restored only into the same type
)

type jnode struct {
	K    jkind
	V    Value      // leaf value (jBool: *Term, jNum: *Term|float64, jStr: Str, jOpaque: any)
	T    types.Type // leaf type (jNum: signedness/width; jOpaque: identity)
	Keys []string
	Kids []*jnode
}

// symFloat is a symbolic number sitting in an interface{} after Unmarshal into interface{}
// (real json yields float64). Only re-marshalling understands it.
type symFloat struct{ T *Term; Signed bool }

// jsonOpaqueVal is an opaque JSON leaf (time.Time, []byte) sitting in an interface{} as "string"
type jsonOpaqueVal struct{ n *jnode }

func isTimeType(t types.Type) bool {
	n, ok := t.(*types.Named)
	return ok && n.Obj().Pkg() != nil && n.Obj().Pkg().Path() == "time" && n.Obj().Name() == "Time"
}

func isRawMessage(t types.Type) bool {
	n, ok := t.(*types.Named)
	return ok && n.Obj().Pkg() != nil && n.Obj().Pkg().Path() == "encoding/json" && n.Obj().Name() == "RawMessage"
}

func jsonFieldName(f *types.Var, tag string) (name string, omitempty, skip bool) {
	jt := reflect.StructTag(tag).Get("json")
	if jt == "-" {
		return "", false, true
	}
	parts := strings.Split(jt, ",")
	name = parts[0]
	for _, o := range parts[1:] {
		if o == "omitempty" {
			omitempty = true
		}
	}
	if name == "" {
		name = f.Name()
	}
	return
}

func (e *Engine) jsonIsEmpty(v Value) bool {
	switch x := v.(type) {
	case *Term:
		if x.IsConst() {
			return x.C == 0
		}
		if x.S == BoolSort {
			return e.Branch(e.tb.Not(x))
		}
		return e.Branch(e.tb.Eq(x, e.tb.Const(x.S.W, 0)))
	case float64:
		return x == 0
	case Str:
		return x.Len() == 0
	case Ptr:
		return x.B == nil
	case Slice:
		return x.Len == 0
	case *MapObj:
		return x == nil || len(x.Ent) == 0
	case Iface:
		return x.T == nil
	}
	return false
}

// blobOfBytes recovers the blob a byte slice / string stands for (tag or placeholder text).
func (e *Engine) blobOfTerms(ts []*Term, tag *Blob) *Blob {
	if tag != nil {
		return tag
	}
	txt := e.normStr(ts, nil)
	if txt.IsConc() {
		var id int
		if _, err := fmt.Sscanf(txt.S, "{\"#blob\":%d}", &id); err == nil {
			return e.blobs[id]
		}
	}
	return nil
}

func (e *Engine) newTreeBlob(n *jnode) (*Blob, Slice) {
	e.nblob++
	blob := &Blob{ID: e.nblob, Tree: n}
	if e.blobs == nil {
		e.blobs = map[int]*Blob{}
	}
	e.blobs[blob.ID] = blob
	s := e.mkConcByteSlice([]byte(fmt.Sprintf("{\"#blob\":%d}", blob.ID)))
	s.B.Tag = blob
	return blob, s
}

func (e *Engine) blobTree(b *Blob) *jnode {
	if b.Tree == nil {
		if b.T == nil {
			b.Tree = &jnode{K: jNull}
		} else {
			b.Tree = e.jsonToTree(b.Snap, b.T, 0)
		}
	}
	return b.Tree
}

// jsonParseText turns concrete JSON text into a tree (nil if the text is not valid JSON).
func (e *Engine) jsonParseText(txt string) *jnode {
	dec := json.NewDecoder(bytes.NewReader([]byte(txt)))
	dec.UseNumber()
	var v interface{}
	if err := dec.Decode(&v); err != nil {
		return nil
	}
	if dec.More() {
		return nil
	}
	return e.jsonFromGo(v)
}

func (e *Engine) jsonFromGo(v interface{}) *jnode {
	switch x := v.(type) {
	case nil:
		return &jnode{K: jNull}
	case bool:
		return &jnode{K: jBool, V: e.tb.Bool(x)}
	case json.Number:
		if i, err := x.Int64(); err == nil {
			return &jnode{K: jNum, V: e.tb.Const(64, uint64(i)), T: types.Typ[types.Int64]}
		}
		f, _ := x.Float64()
		return &jnode{K: jNum, V: f, T: types.Typ[types.Float64]}
	case string:
		return &jnode{K: jStr, V: Str{S: x}}
	case []interface{}:
		n := &jnode{K: jArr}
		for _, el := range x {
			n.Kids = append(n.Kids, e.jsonFromGo(el))
		}
		return n
	case map[string]interface{}:
		n := &jnode{K: jObj}
		keys := make([]string, 0, len(x))
		for k := range x {
			keys = append(keys, k)
		}
		sort.Strings(keys)
		for _, k := range keys {
			n.Keys = append(n.Keys, k)
			n.Kids = append(n.Kids, e.jsonFromGo(x[k]))
		}
		return n
	}
	panic(e.unsupported(fmt.Sprintf("json text value %T", v)))
}

func (e *Engine) jsonToTree(v Value, t types.Type, depth int) *jnode {
	if depth > 16 {
		panic(e.unsupported("json value too deep"))
	}
	if isTimeType(t) {
		return &jnode{K: jOpaque, V: copyVal(v), T: t}
	}
	if isRawMessage(t) {
		s := v.(Slice)
		if s.B == nil {
			return &jnode{K: jNull}
		}
		var tag *Blob
		if s.Off == 0 && s.Len == len(s.B.E) {
			tag = s.B.Tag
		}
		ts := e.sliceTerms(s)
		if b := e.blobOfTerms(ts, tag); b != nil {
			return e.blobTree(b)
		}
		if txt := e.normStr(ts, nil); txt.IsConc() {
			if n := e.jsonParseText(txt.S); n != nil {
				return n
			}
		}
		panic(e.unsupported("json.RawMessage with symbolic text"))
	}
	switch u := t.Underlying().(type) {
	case *types.Basic:
		switch {
		case u.Kind() == types.Bool:
			return &jnode{K: jBool, V: v}
		case u.Info()&types.IsString != 0:
			return &jnode{K: jStr, V: v}
		case u.Info()&(types.IsInteger|types.IsFloat) != 0:
			return &jnode{K: jNum, V: v, T: u}
		}
	case *types.Pointer:
		p := v.(Ptr)
		if p.B == nil {
			return &jnode{K: jNull}
		}
		p = e.concPtr(p)
		return e.jsonToTree(p.B.E[p.I], u.Elem(), depth+1)
	case *types.Interface:
		x := v.(Iface)
		if x.T == nil {
			return &jnode{K: jNull}
		}
		if ov, ok := x.V.(jsonOpaqueVal); ok {
			return ov.n
		}
		if sf, ok := x.V.(symFloat); ok {
			tt := types.Typ[types.Uint64]
			if sf.Signed {
				tt = types.Typ[types.Int64]
			}
			return &jnode{K: jNum, V: sf.T, T: tt}
		}
		return e.jsonToTree(x.V, x.T, depth+1)
	case *types.Struct:
		n := &jnode{K: jObj}
		e.jsonStructFields(n, v.(*Backing), u, depth)
		return n
	case *types.Slice:
		s := v.(Slice)
		if s.B == nil {
			return &jnode{K: jNull}
		}
		if b, ok := u.Elem().Underlying().(*types.Basic); ok && b.Kind() == types.Uint8 {
			cp := &Backing{E: append([]Value(nil), s.B.E[s.Off:s.Off+s.Len]...)}
			return &jnode{K: jOpaque, V: Slice{B: cp, Len: s.Len, Cap: s.Len}, T: types.NewSlice(types.Typ[types.Uint8])}
		}
		n := &jnode{K: jArr}
		for i := 0; i < s.Len; i++ {
			n.Kids = append(n.Kids, e.jsonToTree(s.B.E[s.Off+i], u.Elem(), depth+1))
		}
		return n
	case *types.Array:
		b := v.(*Backing)
		n := &jnode{K: jArr}
		for i := range b.E {
			n.Kids = append(n.Kids, e.jsonToTree(b.E[i], u.Elem(), depth+1))
		}
		return n
	case *types.Map:
		m := v.(*MapObj)
		if m == nil {
			return &jnode{K: jNull}
		}
		if !isString(u.Key()) {
			panic(e.unsupported("json map with non-string keys"))
		}
		type kv struct {
			k string
			v Value
		}
		var ents []kv
		for _, en := range m.Ent {
			ks := en.K.(Str)
			if !ks.IsConc() {
				panic(e.unsupported("json map with symbolic key"))
			}
			ents = append(ents, kv{ks.S, en.V})
		}
		sort.Slice(ents, func(i, j int) bool { return ents[i].k < ents[j].k })
		n := &jnode{K: jObj}
		for _, en := range ents {
			n.Keys = append(n.Keys, en.k)
			n.Kids = append(n.Kids, e.jsonToTree(en.v, u.Elem(), depth+1))
		}
		return n
	}
	panic(e.unsupported("json.Marshal of " + t.String()))
}

func (e *Engine) jsonStructFields(n *jnode, b *Backing, st *types.Struct, depth int) {
	for i := 0; i < st.NumFields(); i++ {
		f := st.Field(i)
		tag := st.Tag(i)
		if f.Embedded() && reflect.StructTag(tag).Get("json") == "" {
			ft := f.Type()
			fv := b.E[i]
			if pt, ok := ft.Underlying().(*types.Pointer); ok {
				p := fv.(Ptr)
				if p.B == nil {
					continue
				}
				p = e.concPtr(p)
				fv, ft = p.B.E[p.I], pt.Elem()
			}
			if est, ok := ft.Underlying().(*types.Struct); ok && !isTimeType(ft) {
				e.jsonStructFields(n, fv.(*Backing), est, depth)
				continue
			}
		}
		if !f.Exported() {
			continue
		}
		name, omit, skip := jsonFieldName(f, tag)
		if skip {
			continue
		}
		if omit && e.jsonIsEmpty(b.E[i]) {
			continue
		}
		n.Keys = append(n.Keys, name)
		n.Kids = append(n.Kids, e.jsonToTree(b.E[i], f.Type(), depth+1))
	}
}

type jsonTypeErr struct{ msg string }

// jsonFromTree builds a value of type t from the tree; old is the destination's current value.
func (e *Engine) jsonFromTree(n *jnode, t types.Type, old Value, depth int) Value {
	if depth > 16 {
		panic(e.unsupported("json value too deep"))
	}
	mismatch := func() Value {
		panic(jsonTypeErr{fmt.Sprintf("json: cannot unmarshal %v into Go value of type %s", n.K, t.String())})
	}
	if isTimeType(t) {
		if n.K == jOpaque && isTimeType(n.T) {
			// the textual form carries no monotonic clock reading
			return e.mkTime(e.timeNS(n.V))
		}
		if n.K == jNull {
			return old
		}
		if n.K == jStr {
			panic(e.unsupported("json: time.Time from text"))
		}
		return mismatch()
	}
	if isRawMessage(t) {
		_, s := e.newTreeBlob(n)
		return s
	}
	switch u := t.Underlying().(type) {
	case *types.Basic:
		if n.K == jNull {
			return old
		}
		switch {
		case u.Kind() == types.Bool:
			if n.K != jBool {
				return mismatch()
			}
			return n.V
		case u.Info()&types.IsString != 0:
			if n.K != jStr {
				return mismatch()
			}
			s := n.V.(Str)
			s.Tag = nil
			return s
		case u.Info()&types.IsInteger != 0:
			if n.K != jNum {
				return mismatch()
			}
			w, _, _ := intWidth(u)
			switch x := n.V.(type) {
			case *Term:
				sw, ssigned, _ := intWidth(n.T.Underlying().(*types.Basic))
				switch {
				case sw == w:
					return x
				case sw > w:
					return e.tb.Extract(x, w-1, 0)
				case ssigned:
					return e.tb.SExt(x, w)
				default:
					return e.tb.ZExt(x, w)
				}
			case float64:
				if x != float64(int64(x)) {
					return mismatch()
				}
				return e.tb.Const(w, uint64(int64(x)))
			}
		case u.Info()&types.IsFloat != 0:
			if n.K != jNum {
				return mismatch()
			}
			switch x := n.V.(type) {
			case float64:
				return x
			case *Term:
				c := e.Concretize(x, "json number into float")
				if _, signed, _ := intWidth(n.T.Underlying().(*types.Basic)); signed {
					return float64(sext64(c, x.S.W))
				}
				return float64(c)
			}
		}
	case *types.Pointer:
		if n.K == jNull {
			return Ptr{}
		}
		op, _ := old.(Ptr)
		if op.B != nil {
			op = e.concPtr(op)
			op.B.E[op.I] = e.jsonFromTree(n, u.Elem(), op.B.E[op.I], depth+1)
			return op
		}
		return Ptr{B: &Backing{E: []Value{e.jsonFromTree(n, u.Elem(), e.zero(u.Elem()), depth+1)}}}
	case *types.Interface:
		if n.K == jNull {
			return Iface{}
		}
		if u.NumMethods() != 0 {
			return mismatch()
		}
		return e.jsonToAny(n, depth)
	case *types.Struct:
		if n.K == jNull {
			return old
		}
		if n.K != jObj {
			return mismatch()
		}
		b := copyVal(old).(*Backing)
		for i, k := range n.Keys {
			e.jsonSetField(b, u, k, n.Kids[i], depth)
		}
		return b
	case *types.Slice:
		if n.K == jNull {
			return Slice{}
		}
		if b, ok := u.Elem().Underlying().(*types.Basic); ok && b.Kind() == types.Uint8 {
			if n.K == jOpaque {
				if s, ok := n.V.(Slice); ok {
					cp := &Backing{E: append([]Value(nil), s.B.E[s.Off:s.Off+s.Len]...)}
					return Slice{B: cp, Len: s.Len, Cap: s.Len}
				}
			}
			if n.K == jStr {
				if str, ok := n.V.(Str); ok && str.IsConc() {
					// concrete text: what encoding/json does (standard base64; bad text is an error)
					raw, err := base64.StdEncoding.DecodeString(str.S)
					if err != nil {
						panic(jsonTypeErr{"illegal base64 data in JSON string"})
					}
					return e.mkConcByteSlice(raw)
				}
				panic(e.unsupported("json: []byte from symbolic base64 text"))
			}
			return mismatch()
		}
		if n.K != jArr {
			return mismatch()
		}
		nb := &Backing{E: make([]Value, len(n.Kids))}
		for i, k := range n.Kids {
			nb.E[i] = e.jsonFromTree(k, u.Elem(), e.zero(u.Elem()), depth+1)
		}
		return Slice{B: nb, Len: len(n.Kids), Cap: len(n.Kids)}
	case *types.Array:
		if n.K == jNull {
			return old
		}
		if n.K != jArr {
			return mismatch()
		}
		b := copyVal(old).(*Backing)
		for i := range b.E {
			if i < len(n.Kids) {
				b.E[i] = e.jsonFromTree(n.Kids[i], u.Elem(), e.zero(u.Elem()), depth+1)
			} else {
				b.E[i] = e.zero(u.Elem())
			}
		}
		return b
	case *types.Map:
		if n.K == jNull {
			return (*MapObj)(nil)
		}
		if n.K != jObj || !isString(u.Key()) {
			return mismatch()
		}
		m, _ := old.(*MapObj)
		if m == nil {
			m = &MapObj{KeyT: u.Key()}
		}
		for i, k := range n.Keys {
			e.mapSet(m, Str{S: k}, e.jsonFromTree(n.Kids[i], u.Elem(), e.zero(u.Elem()), depth+1))
		}
		return m
	}
	panic(e.unsupported("json.Unmarshal into " + t.String()))
}

func (e *Engine) jsonSetField(b *Backing, st *types.Struct, key string, kid *jnode, depth int) bool {
	// exact match first, then case-insensitive; embedded structs are searched after own fields
	for pass := 0; pass < 2; pass++ {
		for i := 0; i < st.NumFields(); i++ {
			f := st.Field(i)
			tag := st.Tag(i)
			if f.Embedded() && reflect.StructTag(tag).Get("json") == "" {
				continue
			}
			if !f.Exported() {
				continue
			}
			name, _, skip := jsonFieldName(f, tag)
			if skip {
				continue
			}
			if (pass == 0 && name == key) || (pass == 1 && strings.EqualFold(name, key)) {
				b.E[i] = e.jsonFromTree(kid, f.Type(), b.E[i], depth+1)
				return true
			}
		}
	}
	for i := 0; i < st.NumFields(); i++ {
		f := st.Field(i)
		if !f.Embedded() || reflect.StructTag(st.Tag(i)).Get("json") != "" {
			continue
		}
		ft := f.Type()
		if pt, ok := ft.Underlying().(*types.Pointer); ok {
			est, ok := pt.Elem().Underlying().(*types.Struct)
			if !ok {
				continue
			}
			p := b.E[i].(Ptr)
			if p.B == nil {
				nb := e.zero(pt.Elem()).(*Backing)
				if e.jsonSetField(nb, est, key, kid, depth) {
					b.E[i] = Ptr{B: &Backing{E: []Value{nb}}}
					return true
				}
				continue
			}
			p = e.concPtr(p)
			if e.jsonSetField(p.B.E[p.I].(*Backing), est, key, kid, depth) {
				return true
			}
			continue
		}
		if est, ok := ft.Underlying().(*types.Struct); ok && !isTimeType(ft) {
			if e.jsonSetField(b.E[i].(*Backing), est, key, kid, depth) {
				return true
			}
		}
	}
	return false
}

var (
	jsonAnyT      = types.NewInterfaceType(nil, nil).Complete()
	jsonMapAnyT   = types.NewMap(types.Typ[types.String], jsonAnyT)
	jsonSliceAnyT = types.NewSlice(jsonAnyT)
)

func (e *Engine) jsonToAny(n *jnode, depth int) Value {
	switch n.K {
	case jNull:
		return Iface{}
	case jBool:
		return Iface{T: types.Typ[types.Bool], V: n.V}
	case jStr:
		s := n.V.(Str)
		s.Tag = nil
		return Iface{T: types.Typ[types.String], V: s}
	case jNum:
		switch x := n.V.(type) {
		case float64:
			return Iface{T: types.Typ[types.Float64], V: x}
		case *Term:
			_, signed, _ := intWidth(n.T.Underlying().(*types.Basic))
			if x.IsConst() {
				if signed {
					return Iface{T: types.Typ[types.Float64], V: float64(sext64(x.C, x.S.W))}
				}
				return Iface{T: types.Typ[types.Float64], V: float64(x.C)}
			}
			w := x
			if x.S.W < 64 {
				if signed {
					w = e.tb.SExt(x, 64)
				} else {
					w = e.tb.ZExt(x, 64)
				}
			}
			return Iface{T: types.Typ[types.Float64], V: symFloat{T: e.jsonRoundFloat(w, signed), Signed: signed}}
		}
	case jOpaque:
		// time.Time / []byte travel through interface{} as their JSON string; the text is not
		// materialised, the leaf itself is carried along (the round trip of both is exact)
		return Iface{T: types.Typ[types.String], V: jsonOpaqueVal{n}}
	case jArr:
		nb := &Backing{E: make([]Value, len(n.Kids))}
		for i, k := range n.Kids {
			nb.E[i] = e.jsonToAny(k, depth+1)
		}
		return Iface{T: jsonSliceAnyT, V: Slice{B: nb, Len: len(n.Kids), Cap: len(n.Kids)}}
	case jObj:
		m := &MapObj{KeyT: types.Typ[types.String]}
		for i, k := range n.Keys {
			m.Ent = append(m.Ent, &mapEntry{K: Str{S: k}, V: e.jsonToAny(n.Kids[i], depth+1)})
		}
		return Iface{T: jsonMapAnyT, V: m}
	}
	panic(e.unsupported("json value into interface{}"))
}

// jsonUnmarshalTree is the slow path of json.Unmarshal: different source and destination types.
func (e *Engine) jsonUnmarshalTree(n *jnode, p Ptr, elem types.Type) (res Value) {
	defer func() {
		if r := recover(); r != nil {
			if te, ok := r.(jsonTypeErr); ok {
				res = e.mkError(te.msg)
				return
			}
			panic(r)
		}
	}()
	old := e.load(p)
	e.store(p, e.jsonFromTree(n, elem, old, 0))
	return Iface{}
}

// jsonRoundFloat models what happens to a 64-bit integer that is decoded into interface{}:
// it becomes a float64. Magnitudes up to 2^53 are exact; in (2^53, 2^54) the value is rounded to
// the nearest even multiple of 2 (ties to even mantissa); larger magnitudes end the path as
// unsupported.
func (e *Engine) jsonRoundFloat(w *Term, signed bool) *Term {
	tb := e.tb
	zero, one := tb.Const(64, 0), tb.Const(64, 1)
	abs := w
	if signed {
		abs = tb.Ite(tb.Cmp(OpSlt, w, zero), tb.Bin(OpSub, zero, w), w)
	}
	if e.Branch(tb.Cmp(OpUle, abs, tb.Const(64, uint64(1)<<53))) {
		return w
	}
	if !e.Branch(tb.Cmp(OpUlt, abs, tb.Const(64, uint64(1)<<54))) {
		panic(e.unsupported("json: integer beyond 2^54 decoded into interface{} (float64 rounding not modelled)"))
	}
	odd := tb.Eq(tb.Bin(OpAnd, w, one), one)
	down := tb.Bin(OpSub, w, one)
	up := tb.Bin(OpAdd, w, one)
	// of the two even neighbours the one whose half is even has the even mantissa
	halfEven := tb.Eq(tb.Bin(OpAnd, tb.Bin(OpAShr, down, one), one), zero)
	return tb.Ite(odd, tb.Ite(halfEven, down, up), w)
}
