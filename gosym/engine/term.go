package engine

import (
	"fmt"
	"math/bits"
	"strconv"
	"strings"
)

// Term layer: hash-consed SMT terms over Bool and fixed-width bit-vectors, plus
// uninterpreted functions. Constant folding happens at construction so that a
// fully concrete run never produces a non-constant term (and issues no query).

type Kind uint8

const (
	KBool Kind = iota
	KBV
)

type Sort struct {
	K Kind
	W int
}

var BoolSort = Sort{KBool, 0}

func BV(w int) Sort { return Sort{KBV, w} }

func (s Sort) SMT() string {
	if s.K == KBool {
		return "Bool"
	}
	return fmt.Sprintf("(_ BitVec %d)", s.W)
}

type Op uint8

const (
	OpConst Op = iota
	OpVar
	OpNot
	OpAnd
	OpOr
	OpIte
	OpEq
	OpAdd
	OpSub
	OpMul
	OpUDiv
	OpURem
	OpSDiv
	OpSRem
	OpBAnd
	OpBOr
	OpBXor
	OpShl
	OpLShr
	OpAShr
	OpNeg
	OpBNot
	OpUlt
	OpUle
	OpSlt
	OpSle
	OpExtract
	OpConcat
	OpZExt
	OpSExt
	OpUF
)

var opSMT = map[Op]string{
	OpNot: "not", OpAnd: "and", OpOr: "or", OpIte: "ite", OpEq: "=",
	OpAdd: "bvadd", OpSub: "bvsub", OpMul: "bvmul", OpUDiv: "bvudiv", OpURem: "bvurem",
	OpSDiv: "bvsdiv", OpSRem: "bvsrem", OpBAnd: "bvand", OpBOr: "bvor", OpBXor: "bvxor",
	OpShl: "bvshl", OpLShr: "bvlshr", OpAShr: "bvashr", OpNeg: "bvneg", OpBNot: "bvnot",
	OpUlt: "bvult", OpUle: "bvule", OpSlt: "bvslt", OpSle: "bvsle", OpConcat: "concat",
}

type Term struct {
	ID   int
	Op   Op
	S    Sort
	A    []*Term
	C    uint64 // constant value (masked to width; bool: 0/1)
	Name string // var / UF name
	Hi   int    // extract hi / ext amount
	Lo   int
	size int // tree size (saturating) for inlining decisions
}

func (t *Term) IsConst() bool { return t.Op == OpConst }
func (t *Term) IsTrue() bool  { return t.Op == OpConst && t.S.K == KBool && t.C == 1 }
func (t *Term) IsFalse() bool { return t.Op == OpConst && t.S.K == KBool && t.C == 0 }

// TB is a term builder (one per worker; not safe for concurrent use).
type TB struct {
	tab    map[string]*Term
	nextID int
	True   *Term
	False  *Term
	ufSigs map[string]ufSig
	noLinear bool
	VarRange map[int][2]int64 // optional known ranges of 64-bit variables (term id -> [lo,hi])
}

type ufSig struct {
	args []Sort
	ret  Sort
}

func NewTB() *TB {
	tb := &TB{tab: map[string]*Term{}, ufSigs: map[string]ufSig{}, VarRange: map[int][2]int64{}}
	tb.True = tb.mk(&Term{Op: OpConst, S: BoolSort, C: 1})
	tb.False = tb.mk(&Term{Op: OpConst, S: BoolSort, C: 0})
	return tb
}

func mask(w int) uint64 {
	if w >= 64 {
		return ^uint64(0)
	}
	return (uint64(1) << uint(w)) - 1
}

func (tb *TB) key(t *Term) string {
	var sb strings.Builder
	sb.WriteByte(byte(t.Op) + 'A')
	sb.WriteByte(byte(t.S.K) + '0')
	sb.WriteString(strconv.Itoa(t.S.W))
	switch t.Op {
	case OpConst:
		sb.WriteByte(':')
		sb.WriteString(strconv.FormatUint(t.C, 16))
	case OpVar, OpUF:
		sb.WriteByte(':')
		sb.WriteString(t.Name)
	case OpExtract, OpZExt, OpSExt:
		sb.WriteByte(':')
		sb.WriteString(strconv.Itoa(t.Hi))
		sb.WriteByte(',')
		sb.WriteString(strconv.Itoa(t.Lo))
	}
	for _, a := range t.A {
		sb.WriteByte(' ')
		sb.WriteString(strconv.Itoa(a.ID))
	}
	return sb.String()
}

func (tb *TB) mk(t *Term) *Term {
	k := tb.key(t)
	if e, ok := tb.tab[k]; ok {
		return e
	}
	t.ID = tb.nextID
	tb.nextID++
	sz := 1
	for _, a := range t.A {
		sz += a.size
		if sz > 1<<20 {
			sz = 1 << 20
		}
	}
	t.size = sz
	tb.tab[k] = t
	return t
}

func (tb *TB) Const(w int, v uint64) *Term {
	return tb.mk(&Term{Op: OpConst, S: BV(w), C: v & mask(w)})
}

func (tb *TB) Bool(b bool) *Term {
	if b {
		return tb.True
	}
	return tb.False
}

func (tb *TB) Var(name string, s Sort) *Term {
	return tb.mk(&Term{Op: OpVar, S: s, Name: name})
}

// UF applies an uninterpreted function.
func (tb *TB) UF(name string, ret Sort, args ...*Term) *Term {
	if _, ok := tb.ufSigs[name]; !ok {
		sig := ufSig{ret: ret}
		for _, a := range args {
			sig.args = append(sig.args, a.S)
		}
		tb.ufSigs[name] = sig
	}
	return tb.mk(&Term{Op: OpUF, S: ret, Name: name, A: args})
}

func (tb *TB) Not(a *Term) *Term {
	if a.Op == OpConst {
		return tb.Bool(a.C == 0)
	}
	if a.Op == OpNot {
		return a.A[0]
	}
	return tb.mk(&Term{Op: OpNot, S: BoolSort, A: []*Term{a}})
}

func (tb *TB) And(a, b *Term) *Term {
	if a.IsFalse() || b.IsFalse() {
		return tb.False
	}
	if a.IsTrue() {
		return b
	}
	if b.IsTrue() {
		return a
	}
	if a == b {
		return a
	}
	if (a.Op == OpNot && a.A[0] == b) || (b.Op == OpNot && b.A[0] == a) {
		return tb.False
	}
	return tb.mk(&Term{Op: OpAnd, S: BoolSort, A: []*Term{a, b}})
}

func (tb *TB) Or(a, b *Term) *Term {
	if a.IsTrue() || b.IsTrue() {
		return tb.True
	}
	if a.IsFalse() {
		return b
	}
	if b.IsFalse() {
		return a
	}
	if a == b {
		return a
	}
	if (a.Op == OpNot && a.A[0] == b) || (b.Op == OpNot && b.A[0] == a) {
		return tb.True
	}
	return tb.mk(&Term{Op: OpOr, S: BoolSort, A: []*Term{a, b}})
}

func (tb *TB) Implies(a, b *Term) *Term { return tb.Or(tb.Not(a), b) }

func (tb *TB) Ite(c, a, b *Term) *Term {
	if c.IsTrue() {
		return a
	}
	if c.IsFalse() {
		return b
	}
	if a == b {
		return a
	}
	if a.S.K == KBool {
		if a.IsTrue() && b.IsFalse() {
			return c
		}
		if a.IsFalse() && b.IsTrue() {
			return tb.Not(c)
		}
		if a.IsTrue() {
			return tb.Or(c, b)
		}
		if a.IsFalse() {
			return tb.And(tb.Not(c), b)
		}
		if b.IsTrue() {
			return tb.Or(tb.Not(c), a)
		}
		if b.IsFalse() {
			return tb.And(c, a)
		}
	}
	if c.Op == OpNot {
		return tb.Ite(c.A[0], b, a)
	}
	return tb.mk(&Term{Op: OpIte, S: a.S, A: []*Term{c, a, b}})
}

func (tb *TB) Eq(a, b *Term) *Term {
	if a == b {
		return tb.True
	}
	if a.S != b.S {
		panic(fmt.Sprintf("Eq sort mismatch %v %v", a.S, b.S))
	}
	if a.Op == OpConst && b.Op == OpConst {
		return tb.Bool(a.C == b.C)
	}
	if a.S.K == KBV && a.S.W == 64 && !tb.noLinear {
		if r, ok := tb.linCompare(OpEq, a, b); ok {
			return r
		}
	}
	if a.Op == OpConst {
		a, b = b, a
	}
	if a.S.K == KBool {
		if b.IsTrue() {
			return a
		}
		if b.IsFalse() {
			return tb.Not(a)
		}
	}
	// (ite c k1 k2) == k3 with constants
	if b.Op == OpConst && a.Op == OpIte {
		x, y := a.A[1], a.A[2]
		if x.Op == OpConst || y.Op == OpConst {
			return tb.Ite(a.A[0], tb.Eq(x, b), tb.Eq(y, b))
		}
	}
	// zext(x) == const
	if b.Op == OpConst && a.Op == OpZExt {
		in := a.A[0]
		if b.C > mask(in.S.W) {
			return tb.False
		}
		return tb.Eq(in, tb.Const(in.S.W, b.C))
	}
	if a.ID > b.ID && b.Op != OpConst {
		a, b = b, a
	}
	return tb.mk(&Term{Op: OpEq, S: BoolSort, A: []*Term{a, b}})
}

func sext64(v uint64, w int) int64 {
	if w >= 64 {
		return int64(v)
	}
	sh := uint(64 - w)
	return int64(v<<sh) >> sh
}

func foldBin(op Op, w int, x, y uint64) (uint64, bool) {
	m := mask(w)
	switch op {
	case OpAdd:
		return (x + y) & m, true
	case OpSub:
		return (x - y) & m, true
	case OpMul:
		return (x * y) & m, true
	case OpUDiv:
		if y == 0 {
			return m, true
		}
		return (x / y) & m, true
	case OpURem:
		if y == 0 {
			return x, true
		}
		return (x % y) & m, true
	case OpSDiv:
		sx, sy := sext64(x, w), sext64(y, w)
		if sy == 0 {
			if sx >= 0 {
				return m, true
			}
			return 1, true
		}
		if sy == -1 {
			return uint64(-sx) & m, true
		}
		return uint64(sx/sy) & m, true
	case OpSRem:
		sx, sy := sext64(x, w), sext64(y, w)
		if sy == 0 {
			return x, true
		}
		if sy == -1 {
			return 0, true
		}
		return uint64(sx%sy) & m, true
	case OpBAnd:
		return x & y, true
	case OpBOr:
		return x | y, true
	case OpBXor:
		return x ^ y, true
	case OpShl:
		if y >= uint64(w) {
			return 0, true
		}
		return (x << y) & m, true
	case OpLShr:
		if y >= uint64(w) {
			return 0, true
		}
		return (x >> y) & m, true
	case OpAShr:
		sx := sext64(x, w)
		if y >= uint64(w) {
			y = uint64(w - 1)
			if w == 64 {
				y = 63
			}
		}
		return uint64(sx>>y) & m, true
	}
	return 0, false
}

func foldCmp(op Op, w int, x, y uint64) bool {
	switch op {
	case OpUlt:
		return x < y
	case OpUle:
		return x <= y
	case OpSlt:
		return sext64(x, w) < sext64(y, w)
	case OpSle:
		return sext64(x, w) <= sext64(y, w)
	}
	panic("foldCmp")
}

func (tb *TB) Bin(op Op, a, b *Term) *Term {
	if a.S != b.S || a.S.K != KBV {
		panic(fmt.Sprintf("Bin %v sort mismatch %v %v", op, a.S, b.S))
	}
	w := a.S.W
	if a.Op == OpConst && b.Op == OpConst {
		v, _ := foldBin(op, w, a.C, b.C)
		return tb.Const(w, v)
	}
	switch op {
	case OpAdd:
		if a.Op == OpConst && a.C == 0 {
			return b
		}
		if b.Op == OpConst && b.C == 0 {
			return a
		}
		// (x + c1) + c2
		if b.Op == OpConst && a.Op == OpAdd && a.A[1].Op == OpConst {
			return tb.Bin(OpAdd, a.A[0], tb.Const(w, a.A[1].C+b.C))
		}
		if a.Op == OpConst {
			a, b = b, a
		}
	case OpSub:
		if b.Op == OpConst && b.C == 0 {
			return a
		}
		if a == b {
			return tb.Const(w, 0)
		}
		if b.Op == OpConst {
			return tb.Bin(OpAdd, a, tb.Const(w, -b.C))
		}
	case OpMul:
		if a.Op == OpConst {
			a, b = b, a
		}
		if b.Op == OpConst {
			if b.C == 0 {
				return b
			}
			if b.C == 1 {
				return a
			}
		}
	case OpBAnd:
		if a.Op == OpConst {
			a, b = b, a
		}
		if b.Op == OpConst {
			if b.C == 0 {
				return b
			}
			if b.C == mask(w) {
				return a
			}
		}
		if a == b {
			return a
		}
	case OpBOr:
		if a.Op == OpConst {
			a, b = b, a
		}
		if b.Op == OpConst {
			if b.C == 0 {
				return a
			}
			if b.C == mask(w) {
				return b
			}
		}
		if a == b {
			return a
		}
	case OpBXor:
		if a.Op == OpConst {
			a, b = b, a
		}
		if b.Op == OpConst && b.C == 0 {
			return a
		}
		if a == b {
			return tb.Const(w, 0)
		}
	case OpShl, OpLShr, OpAShr:
		if b.Op == OpConst && b.C == 0 {
			return a
		}
		if a.Op == OpConst && a.C == 0 {
			return a
		}
		if b.Op == OpConst && b.C >= uint64(w) && op != OpAShr {
			return tb.Const(w, 0)
		}
		// shifts of zero-extended bytes by multiples of 8: keep as is (solver handles)
	case OpUDiv, OpSDiv:
		if b.Op == OpConst && b.C == 1 {
			return a
		}
		if b.Op == OpConst && w == 64 && b.C != 0 && int64(b.C) > 0 {
			if lo, hi, ok := tb.termRange(a); ok && lo.Sign() >= 0 && hi.IsUint64() && hi.Uint64() < b.C {
				return tb.Const(w, 0)
			}
		}
	case OpURem, OpSRem:
		// x % c == x when 0 <= x < c (interval analysis)
		if b.Op == OpConst && w == 64 && b.C != 0 && int64(b.C) > 0 {
			if lo, hi, ok := tb.termRange(a); ok && lo.Sign() >= 0 && hi.IsUint64() && hi.Uint64() < b.C {
				return a
			}
		}
	}
	return tb.mk(&Term{Op: op, S: a.S, A: []*Term{a, b}})
}

func (tb *TB) Cmp(op Op, a, b *Term) *Term {
	if a.S != b.S || a.S.K != KBV {
		panic(fmt.Sprintf("Cmp sort mismatch %v %v", a.S, b.S))
	}
	w := a.S.W
	if a.Op == OpConst && b.Op == OpConst {
		return tb.Bool(foldCmp(op, w, a.C, b.C))
	}
	if a == b {
		return tb.Bool(op == OpUle || op == OpSle)
	}
	if w == 64 && !tb.noLinear {
		if r, ok := tb.linCompare(op, a, b); ok {
			return r
		}
	}
	switch op {
	case OpUlt:
		if b.Op == OpConst && b.C == 0 {
			return tb.False
		}
		if a.Op == OpConst && a.C == mask(w) {
			return tb.False
		}
	case OpUle:
		if a.Op == OpConst && a.C == 0 {
			return tb.True
		}
		if b.Op == OpConst && b.C == mask(w) {
			return tb.True
		}
	}
	// comparisons of zext(x) against a constant beyond x's range
	if a.Op == OpZExt && b.Op == OpConst {
		iw := a.A[0].S.W
		if iw < w {
			top := mask(iw)
			bs := sext64(b.C, w)
			switch op {
			case OpUlt:
				if b.C > top {
					return tb.True
				}
			case OpUle:
				if b.C >= top {
					return tb.True
				}
			case OpSlt:
				if bs > int64(top) {
					return tb.True
				}
				if bs <= 0 {
					return tb.False
				}
			case OpSle:
				if bs >= int64(top) {
					return tb.True
				}
				if bs < 0 {
					return tb.False
				}
			}
		}
	}
	if b.Op == OpZExt && a.Op == OpConst {
		iw := b.A[0].S.W
		if iw < w {
			top := mask(iw)
			as := sext64(a.C, w)
			switch op {
			case OpUlt:
				if a.C >= top {
					return tb.False
				}
			case OpUle:
				if a.C > top {
					return tb.False
				}
			case OpSlt:
				if as < 0 {
					return tb.True
				}
				if as >= int64(top) {
					return tb.False
				}
			case OpSle:
				if as <= 0 {
					return tb.True
				}
				if as > int64(top) {
					return tb.False
				}
			}
		}
	}
	return tb.mk(&Term{Op: op, S: BoolSort, A: []*Term{a, b}})
}

func (tb *TB) Neg(a *Term) *Term {
	if a.Op == OpConst {
		return tb.Const(a.S.W, -a.C)
	}
	return tb.mk(&Term{Op: OpNeg, S: a.S, A: []*Term{a}})
}

func (tb *TB) BNot(a *Term) *Term {
	if a.Op == OpConst {
		return tb.Const(a.S.W, ^a.C)
	}
	if a.Op == OpBNot {
		return a.A[0]
	}
	return tb.mk(&Term{Op: OpBNot, S: a.S, A: []*Term{a}})
}

func (tb *TB) Extract(a *Term, hi, lo int) *Term {
	w := hi - lo + 1
	if lo == 0 && w == a.S.W {
		return a
	}
	if a.Op == OpConst {
		return tb.Const(w, a.C>>uint(lo))
	}
	if (a.Op == OpZExt || a.Op == OpSExt) && lo == 0 {
		in := a.A[0]
		if w == in.S.W {
			return in
		}
		if w < in.S.W {
			return tb.Extract(in, hi, 0)
		}
		if a.Op == OpZExt {
			return tb.ZExt(in, w)
		}
		return tb.SExt(in, w)
	}
	if a.Op == OpZExt && lo >= a.A[0].S.W {
		return tb.Const(w, 0)
	}
	if a.Op == OpIte && (a.A[1].Op == OpConst || a.A[2].Op == OpConst) {
		return tb.Ite(a.A[0], tb.Extract(a.A[1], hi, lo), tb.Extract(a.A[2], hi, lo))
	}
	// extract low byte(s) of OR/shift combos built by binary.BigEndian: leave to solver
	return tb.mk(&Term{Op: OpExtract, S: BV(w), A: []*Term{a}, Hi: hi, Lo: lo})
}

func (tb *TB) ZExt(a *Term, w int) *Term {
	if w == a.S.W {
		return a
	}
	if w < a.S.W {
		return tb.Extract(a, w-1, 0)
	}
	if a.Op == OpConst {
		return tb.Const(w, a.C)
	}
	if a.Op == OpZExt {
		return tb.ZExt(a.A[0], w)
	}
	if a.Op == OpIte && (a.A[1].Op == OpConst || a.A[2].Op == OpConst) {
		return tb.Ite(a.A[0], tb.ZExt(a.A[1], w), tb.ZExt(a.A[2], w))
	}
	return tb.mk(&Term{Op: OpZExt, S: BV(w), A: []*Term{a}, Hi: w - a.S.W})
}

func (tb *TB) SExt(a *Term, w int) *Term {
	if w == a.S.W {
		return a
	}
	if w < a.S.W {
		return tb.Extract(a, w-1, 0)
	}
	if a.Op == OpConst {
		return tb.Const(w, uint64(sext64(a.C, a.S.W)))
	}
	if a.Op == OpIte && (a.A[1].Op == OpConst || a.A[2].Op == OpConst) {
		return tb.Ite(a.A[0], tb.SExt(a.A[1], w), tb.SExt(a.A[2], w))
	}
	return tb.mk(&Term{Op: OpSExt, S: BV(w), A: []*Term{a}, Hi: w - a.S.W})
}

func (tb *TB) Concat(hi, lo *Term) *Term {
	w := hi.S.W + lo.S.W
	if hi.Op == OpConst && lo.Op == OpConst && w <= 64 {
		return tb.Const(w, hi.C<<uint(lo.S.W)|lo.C)
	}
	return tb.mk(&Term{Op: OpConcat, S: BV(w), A: []*Term{hi, lo}})
}

// Model maps variable / UF-application names to values.
type Model map[string]uint64

// Eval evaluates t under m. Missing variables read as 0 (sound for fresh
// unconstrained variables; callers only rely on Eval for variables that the
// model was asked for or that were created after the model was obtained).
func (tb *TB) Eval(t *Term, m Model, memo map[int]uint64) uint64 {
	if t.Op == OpConst {
		return t.C
	}
	if v, ok := memo[t.ID]; ok {
		return v
	}
	var r uint64
	switch t.Op {
	case OpVar:
		r = m[t.Name] & maskSort(t.S)
	case OpUF:
		r = m[ufAppName(t)] & maskSort(t.S)
	case OpNot:
		r = 1 - tb.Eval(t.A[0], m, memo)
	case OpAnd:
		r = tb.Eval(t.A[0], m, memo) & tb.Eval(t.A[1], m, memo)
	case OpOr:
		r = tb.Eval(t.A[0], m, memo) | tb.Eval(t.A[1], m, memo)
	case OpIte:
		if tb.Eval(t.A[0], m, memo) == 1 {
			r = tb.Eval(t.A[1], m, memo)
		} else {
			r = tb.Eval(t.A[2], m, memo)
		}
	case OpEq:
		if tb.Eval(t.A[0], m, memo) == tb.Eval(t.A[1], m, memo) {
			r = 1
		}
	case OpUlt, OpUle, OpSlt, OpSle:
		if foldCmp(t.Op, t.A[0].S.W, tb.Eval(t.A[0], m, memo), tb.Eval(t.A[1], m, memo)) {
			r = 1
		}
	case OpNeg:
		r = (-tb.Eval(t.A[0], m, memo)) & mask(t.S.W)
	case OpBNot:
		r = (^tb.Eval(t.A[0], m, memo)) & mask(t.S.W)
	case OpExtract:
		r = (tb.Eval(t.A[0], m, memo) >> uint(t.Lo)) & mask(t.S.W)
	case OpZExt:
		r = tb.Eval(t.A[0], m, memo)
	case OpSExt:
		r = uint64(sext64(tb.Eval(t.A[0], m, memo), t.A[0].S.W)) & mask(t.S.W)
	case OpConcat:
		r = (tb.Eval(t.A[0], m, memo)<<uint(t.A[1].S.W) | tb.Eval(t.A[1], m, memo)) & mask(t.S.W)
	default:
		v, ok := foldBin(t.Op, t.S.W, tb.Eval(t.A[0], m, memo), tb.Eval(t.A[1], m, memo))
		if !ok {
			panic(fmt.Sprintf("Eval: op %d", t.Op))
		}
		r = v
	}
	memo[t.ID] = r
	return r
}

func maskSort(s Sort) uint64 {
	if s.K == KBool {
		return 1
	}
	return mask(s.W)
}

func ufAppName(t *Term) string { return fmt.Sprintf("uf!%d", t.ID) }

// ---- SMT-LIB printing -------------------------------------------------------

func constSMT(t *Term) string {
	if t.S.K == KBool {
		if t.C == 1 {
			return "true"
		}
		return "false"
	}
	if t.S.W%4 == 0 {
		return fmt.Sprintf("#x%0*x", t.S.W/4, t.C)
	}
	return fmt.Sprintf("#b%0*b", t.S.W, t.C)
}

var _ = bits.Len

// String renders a term for debugging.
func (t *Term) String() string {
	switch t.Op {
	case OpConst:
		return constSMT(t)
	case OpVar:
		return t.Name
	}
	s := "(" + opSMT[t.Op]
	if t.Op == OpExtract || t.Op == OpZExt || t.Op == OpSExt || t.Op == OpUF {
		s = fmt.Sprintf("(op%d:%s:%d:%d", t.Op, t.Name, t.Hi, t.Lo)
	}
	for _, a := range t.A {
		s += " " + a.String()
	}
	return s + ")"
}
