package engine

import (
	"fmt"
	"sync"
)

// Engine threads are goroutines that run one at a time (baton passing), so all
// engine state is accessed without locks. Scheduling points are the intercepted
// synchronisation operations and calls on objects marked shared by the harness.

type Thread struct {
	id      int
	name    string
	e       *Engine
	wake    chan struct{}
	done    bool
	started bool
	blocked func() bool // non-nil: thread may proceed when it returns true
	quiesce bool        // runnable only when no other thread is
	lockDepth int       // mutexes currently held (coarse scheduling: no preemption while > 0)
	wg      *sync.WaitGroup
	panicV  interface{}
	gate    int // >= 0: created by verif_GoGate, index in creation order; -1 otherwise
}

type syncState struct {
	locked   bool
	owner    int
	readers  int
	wgCount  int64
	onceDone bool
}

func (e *Engine) syncFor(p Ptr) *syncState {
	if p.B == nil {
		panic(e.targetPanicStr("invalid memory address or nil pointer dereference"))
	}
	m := e.sync[p.B]
	if m == nil {
		m = map[int]*syncState{}
		e.sync[p.B] = m
	}
	s := m[p.I]
	if s == nil {
		s = &syncState{}
		m[p.I] = s
	}
	return s
}

func (t *Thread) runnable() bool {
	if t.done {
		return false
	}
	if t.blocked != nil && !t.blocked() {
		return false
	}
	return true
}

func (e *Engine) runnableThreads() []*Thread {
	var r, q []*Thread
	for _, t := range e.threads {
		if !t.runnable() {
			continue
		}
		if t.quiesce {
			q = append(q, t)
		} else {
			r = append(r, t)
		}
	}
	if len(r) == 0 {
		return q
	}
	return r
}

// switchTo hands the baton to t and parks the calling thread until it is woken.
func (e *Engine) switchTo(me, t *Thread) {
	if t == me {
		return
	}
	e.cur = t
	t.wake <- struct{}{}
	if me != nil {
		<-me.wake
		if e.aborting {
			panic(pathEnd{"abort", ""})
		}
		if me.id == 0 {
			e.checkPending()
		}
	}
}

// Yield is a scheduling point: the scheduler may switch to any runnable thread,
// subject to the preemption bound.
func (e *Engine) Yield() {
	if len(e.threads) == 1 || e.inInit > 0 {
		// package initialisers run lazily, once per engine instance for packages outside the
		// repository: they must not contribute scheduling decisions, or the decision prefix of a
		// path would depend on which worker executes it
		e.explicitYield = false
		return
	}
	// coarse scheduling: only explicit harness yield points (tier/storage operations of
	// the doubles) are preemption points; sync intercepts keep their blocking semantics
	explicit := e.explicitYield
	e.explicitYield = false // consumed here: the flag must not leak to the thread we switch to
	if e.cfg.Bounds["coarse_sched"] != 0 && !explicit {
		return
	}
	me := e.cur
	rs := e.runnableThreads()
	if len(rs) == 0 {
		return
	}
	meRunnable := false
	for _, t := range rs {
		if t == me {
			meRunnable = true
		}
	}
	var opts []int
	if meRunnable {
		opts = append(opts, me.id)
		// coarse mode: never preempt a thread inside a critical section (it holds a mutex);
		// the decision is still recorded so that the native baton replay stays aligned
		if e.preempts < e.cfg.Preempt && !(e.cfg.Bounds["coarse_sched"] != 0 && me.lockDepth > 0) {
			for _, t := range rs {
				if t != me {
					opts = append(opts, t.id)
				}
			}
		}
	} else {
		for _, t := range rs {
			opts = append(opts, t.id)
		}
	}
	if len(opts) == 0 {
		return
	}
	c := e.chooseAmong(opts)
	if meRunnable && c != me.id {
		e.preempts++
	}
	if DebugForks {
		fmt.Printf("ESCHED[%d] yield cur=%d -> %d opts=%v\n", len(e.sched), me.id, c, opts)
	}
	e.sched = append(e.sched, c)
	if c != me.id {
		e.switchTo(me, e.threads[c])
	}
}

// schedPick chooses the next thread at a point where the current one cannot continue
// (blocked, finished, quiescing). Bound sched_first=1: the lowest-numbered runnable thread
// is taken and the other orders are not explored (stated as outside the claim).
func (e *Engine) schedPick(opts []int) int {
	if e.cfg.Bounds["sched_first"] != 0 {
		return opts[0]
	}
	return e.chooseAmong(opts)
}

// liveThreads counts the threads that have not finished.
func (e *Engine) liveThreads() int {
	n := 0
	for _, t := range e.threads {
		if !t.done {
			n++
		}
	}
	return n
}

// advanceIdle: every thread is blocked. With a pinned concrete clock, time jumps to the
// earliest pending timer (what the runtime does for sleeping goroutines and what a synctest
// bubble does for the native replay); reports whether the clock moved.
func (e *Engine) advanceIdle() bool {
	if !e.clockPinned || e.now == nil {
		return false
	}
	now := e.subst(e.now)
	if !now.IsConst() {
		return false
	}
	best := int64(-1)
	for _, c := range e.timers {
		if !c.Timer || c.Next == nil || !c.Next.IsConst() {
			continue
		}
		n := sext64(c.Next.C, 64)
		if n <= sext64(now.C, 64) || n >= int64(1)<<62 {
			continue
		}
		if best < 0 || n < best {
			best = n
		}
	}
	if best < 0 {
		return false
	}
	e.now = e.tb.Const(64, uint64(best))
	return true
}

// Block parks the current thread until cond holds. Deadlock (no runnable thread)
// ends the path with a deadlock event.
func (e *Engine) Block(cond func() bool, what string) {
	me := e.cur
	for !cond() {
		me.blocked = cond
		rs := e.runnableThreads()
		var opts []int
		for _, t := range rs {
			if t != me {
				opts = append(opts, t.id)
			}
		}
		if len(opts) == 0 && e.advanceIdle() {
			me.blocked = nil
			continue
		}
		if len(opts) == 0 {
			me.blocked = nil
			panic(pathEnd{"deadlock", fmt.Sprintf("thread %d (%s) blocked forever on %s; no runnable thread", me.id, me.name, what)})
		}
		c := e.schedPick(opts)
		if DebugForks {
			fmt.Printf("ESCHED[%d] block(%s) cur=%d -> %d\n", len(e.sched), what, me.id, c)
		}
		e.sched = append(e.sched, c)
		e.switchTo(me, e.threads[c])
		me.blocked = nil
	}
}

// Quiesce runs all other threads until none is runnable; returns the number of
// threads that are still alive (blocked forever).
func (e *Engine) Quiesce() int {
	me := e.cur
	me.quiesce = true
	defer func() { me.quiesce = false }()
	for {
		var opts []int
		for _, t := range e.threads {
			if t != me && t.runnable() && !t.quiesce {
				opts = append(opts, t.id)
			}
		}
		if len(opts) == 0 {
			break
		}
		c := e.schedPick(opts)
		if DebugForks {
			fmt.Printf("ESCHED[%d] quiesce cur=%d -> %d\n", len(e.sched), me.id, c)
		}
		e.sched = append(e.sched, c)
		e.switchTo(me, e.threads[c])
	}
	n := 0
	for _, t := range e.threads {
		if t != me && !t.done {
			n++
		}
	}
	return n
}

// Spawn creates an engine thread running f.
func (e *Engine) Spawn(name string, f func(t *Thread)) *Thread {
	if DebugForks {
		fmt.Printf("SPAWN %s from %s\n", name, e.lastFn)
	}
	t := &Thread{id: len(e.threads), name: name, e: e, wake: make(chan struct{}, 1), gate: -1}
	e.threads = append(e.threads, t)
	parent := e.cur
	go func() {
		<-t.wake
		t.started = true
		if t.gate >= 0 && !e.aborting {
			e.gateOrder = append(e.gateOrder, t.gate)
		}
		if e.aborting {
			t.done = true
			parent.e.threadGone(t)
			return
		}
		defer func() {
			r := recover()
			t.done = true
			if r != nil {
				if pe, ok := r.(pathEnd); ok && pe.kind == "abort" {
					e.threadGone(t)
					return
				}
				// propagate path end / panic to main thread
				t.panicV = r
				e.abortWith(r)
				e.threadGone(t)
				return
			}
			// normal exit: hand the baton to someone else
			e.threadExit(t)
		}()
		f(t)
	}()
	return t
}

func (e *Engine) threadGone(t *Thread) {
	if t.wg != nil {
		t.wg.Done()
	}
}

// threadExit picks the next thread after t finished.
func (e *Engine) threadExit(t *Thread) {
	defer e.threadGone(t)
	if e.aborting {
		return
	}
	rs := e.runnableThreads()
	for len(rs) == 0 && !e.threads[0].done && e.advanceIdle() {
		rs = e.runnableThreads()
	}
	if len(rs) == 0 {
		// everything else is blocked: wake main so it can report (main must be blocked)
		main := e.threads[0]
		if !main.done {
			e.pendingEnd = &pathEnd{"deadlock", "all remaining threads blocked"}
			e.cur = main
			main.wake <- struct{}{}
		}
		return
	}
	var opts []int
	for _, r := range rs {
		opts = append(opts, r.id)
	}
	var c int
	func() {
		defer func() {
			if r := recover(); r != nil {
				e.abortWith(r)
				c = -1
			}
		}()
		c = e.schedPick(opts)
	}()
	if c < 0 {
		return
	}
	if DebugForks {
		fmt.Printf("ESCHED[%d] exit of %d -> %d\n", len(e.sched), t.id, c)
	}
	e.sched = append(e.sched, c)
	e.cur = e.threads[c]
	e.threads[c].wake <- struct{}{}
}

// abortWith records a path-ending condition raised on a non-main thread and
// wakes the main thread so it unwinds with it.
func (e *Engine) abortWith(r interface{}) {
	if e.aborting {
		return
	}
	main := e.threads[0]
	switch p := r.(type) {
	case pathEnd:
		e.pendingEnd = &p
	case targetPanic:
		e.pendingPanic = &p
	default:
		e.pendingEnd = &pathEnd{"engine-error", fmt.Sprint(r)}
	}
	e.cur = main
	main.wake <- struct{}{}
}

// checkPending is called by the main thread each time it is woken.
func (e *Engine) checkPending() {
	if e.pendingEnd != nil {
		p := *e.pendingEnd
		e.pendingEnd = nil
		panic(p)
	}
	if e.pendingPanic != nil {
		p := *e.pendingPanic
		e.pendingPanic = nil
		panic(p)
	}
}

// killThreads unwinds all parked threads at the end of a path.
func (e *Engine) killThreads() {
	e.aborting = true
	var wg sync.WaitGroup
	for _, t := range e.threads[1:] {
		if t.done {
			continue
		}
		wg.Add(1)
		t.wg = &wg
		t.wake <- struct{}{}
	}
	wg.Wait()
}
