package engine

import "net"

func netIPString(b []byte) string { return net.IP(b).String() }
func netParseIP(s string) []byte {
	ip := net.ParseIP(s)
	if ip == nil {
		return nil
	}
	return []byte(ip)
}
