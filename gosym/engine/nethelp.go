package engine

import "net"

func netIPString(b []byte) string { return net.IP(b).String() }
func netParseIP(s string) []byte {
	ip := net.ParseIP(s)
	if ip == nil {
		return nil
	}
	return []byte(ip)
}

func netParseCIDR(s string) (ip, nip, mask []byte, err error) {
	i, n, e := net.ParseCIDR(s)
	if e != nil {
		return nil, nil, nil, e
	}
	return []byte(i), []byte(n.IP), []byte(n.Mask), nil
}
