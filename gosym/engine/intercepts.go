package engine

import (
	"fmt"
	"go/types"
	"strconv"
	"strings"

	"golang.org/x/tools/go/ssa"
)

type intercept func(e *Engine, fr *frame, args []Value) Value

var verifAPI map[string]intercept
var intercepts map[string]intercept

func (e *Engine) concStr(v Value, what string) string {
	s := v.(Str)
	if s.IsConc() {
		return s.S
	}
	bs := make([]byte, len(s.Sym))
	for i, t := range s.Sym {
		bs[i] = byte(e.Concretize(t, what))
	}
	return string(bs)
}

func (e *Engine) mkInt(v int64) *Term { return e.tb.Const(64, uint64(v)) }

func (e *Engine) sliceTerms(s Slice) []*Term {
	r := make([]*Term, s.Len)
	for i := 0; i < s.Len; i++ {
		r[i] = s.B.E[s.Off+i].(*Term)
	}
	return r
}

func (e *Engine) mkByteSlice(bs []*Term) Slice {
	b := &Backing{E: make([]Value, len(bs))}
	for i, t := range bs {
		b.E[i] = t
	}
	return Slice{B: b, Len: len(bs), Cap: len(bs)}
}

func (e *Engine) mkConcByteSlice(bs []byte) Slice {
	b := &Backing{E: make([]Value, len(bs))}
	for i, c := range bs {
		b.E[i] = e.tb.Const(8, uint64(c))
	}
	return Slice{B: b, Len: len(bs), Cap: len(bs)}
}

func init() {
	verifAPI = map[string]intercept{
		"verif_Byte":   func(e *Engine, fr *frame, a []Value) Value { return e.fresh("byte", BV(8)) },
		"verif_Bool":   func(e *Engine, fr *frame, a []Value) Value { return e.fresh("bool", BoolSort) },
		"verif_Int":    func(e *Engine, fr *frame, a []Value) Value { return e.fresh("int", BV(64)) },
		"verif_Int64":  func(e *Engine, fr *frame, a []Value) Value { return e.fresh("int", BV(64)) },
		"verif_Uint32": func(e *Engine, fr *frame, a []Value) Value { return e.fresh("u32", BV(32)) },
		"verif_Uint16": func(e *Engine, fr *frame, a []Value) Value { return e.fresh("u16", BV(16)) },
		"verif_IntRange": func(e *Engine, fr *frame, a []Value) Value {
			lo, hi := a[0].(*Term), a[1].(*Term)
			x := e.fresh("int", BV(64))
			e.Assume(e.tb.And(e.tb.Cmp(OpSle, lo, x), e.tb.Cmp(OpSle, x, hi)))
			return x
		},
		// the length of a short read of a model reader: its own draw kind, because a native
		// replay over a real loopback socket does not consume these draws (the kernel decides)
		"verif_CutRange": func(e *Engine, fr *frame, a []Value) Value {
			lo, hi := a[0].(*Term), a[1].(*Term)
			x := e.fresh("cut", BV(64))
			e.Assume(e.tb.And(e.tb.Cmp(OpSle, lo, x), e.tb.Cmp(OpSle, x, hi)))
			return x
		},
		"verif_Choose": func(e *Engine, fr *frame, a []Value) Value {
			n := int(e.concInt(a[0].(*Term), "choose n"))
			c := e.ChooseN(n)
			e.recordChoice("choose", uint64(c))
			return e.mkInt(int64(c))
		},
		"verif_Assume": func(e *Engine, fr *frame, a []Value) Value { e.Assume(a[0].(*Term)); return nil },
		"verif_Assert": func(e *Engine, fr *frame, a []Value) Value {
			e.Assert(e.concStr(a[0], "label"), a[1].(*Term), "")
			return nil
		},
		"verif_Cover": func(e *Engine, fr *frame, a []Value) Value { e.Cover(e.concStr(a[0], "label")); return nil },
		"verif_Known": func(e *Engine, fr *frame, a []Value) Value {
			e.known = append(e.known, knownPred{id: e.concStr(a[0], "id"), p: a[1].(*Term)})
			return nil
		},
		"verif_And":     func(e *Engine, fr *frame, a []Value) Value { return e.tb.And(a[0].(*Term), a[1].(*Term)) },
		"verif_Or":      func(e *Engine, fr *frame, a []Value) Value { return e.tb.Or(a[0].(*Term), a[1].(*Term)) },
		"verif_Implies": func(e *Engine, fr *frame, a []Value) Value { return e.tb.Implies(a[0].(*Term), a[1].(*Term)) },
		"verif_BytesEq": func(e *Engine, fr *frame, a []Value) Value {
			x, y := a[0].(Slice), a[1].(Slice)
			if x.Len != y.Len {
				return e.tb.False
			}
			r := e.tb.True
			for i := 0; i < x.Len; i++ {
				r = e.tb.And(r, e.tb.Eq(x.B.E[x.Off+i].(*Term), y.B.E[y.Off+i].(*Term)))
			}
			return r
		},
		"verif_StrEq": func(e *Engine, fr *frame, a []Value) Value { return e.strEq(a[0].(Str), a[1].(Str)) },
		"verif_Bound": func(e *Engine, fr *frame, a []Value) Value {
			name := e.concStr(a[0], "bound name")
			v, ok := e.cfg.Bounds[name]
			if !ok {
				panic(pathEnd{"engine-error", "undefined bound " + name})
			}
			return e.mkInt(int64(v))
		},
		"verif_AllocLimit": func(e *Engine, fr *frame, a []Value) Value {
			e.allocLimit = e.concInt(a[0].(*Term), "alloc limit")
			return nil
		},
		"verif_Concretize": func(e *Engine, fr *frame, a []Value) Value {
			t := a[0].(*Term)
			return e.tb.Const(t.S.W, e.Concretize(t, "verif_Concretize"))
		},
		"verif_Symbolic": func(e *Engine, fr *frame, a []Value) Value { return e.tb.True },
		"verif_Yield": func(e *Engine, fr *frame, a []Value) Value {
			e.explicitYield = true
			defer func() { e.explicitYield = false }()
			e.Yield()
			return nil
		},
		"verif_Spawn": func(e *Engine, fr *frame, a []Value) Value {
			fn := a[0]
			e.Spawn("verif_Spawn", func(t *Thread) { e.call(nil, t, fn, nil, 0) })
			e.explicitYield = true
			defer func() { e.explicitYield = false }()
			e.Yield()
			return nil
		},
		// verif_GoGate(f) is `go f()` whose first activation order is recorded on the tape, so that
		// the native replay can start the goroutines in the engine's order (see api.go.txt)
		"verif_GoGate": func(e *Engine, fr *frame, a []Value) Value {
			fn := a[0]
			t := e.Spawn("gate", func(t *Thread) { e.call(nil, t, fn, nil, 0) })
			t.gate = e.ngates
			e.ngates++
			e.Yield()
			return nil
		},
		"verif_Quiesce":  func(e *Engine, fr *frame, a []Value) Value { return e.mkInt(int64(e.Quiesce())) },
		"verif_AnyOrder": func(e *Engine, fr *frame, a []Value) Value { e.anyOrder = a[0].(*Term).IsTrue(); return nil },
		"verif_Ite": func(e *Engine, fr *frame, a []Value) Value {
			return e.tb.Ite(a[0].(*Term), a[1].(*Term), a[2].(*Term))
		},
		"verif_Fail": func(e *Engine, fr *frame, a []Value) Value {
			e.Assert(e.concStr(a[0], "label"), e.tb.False, "")
			return nil
		},
		"verif_ClockSet": func(e *Engine, fr *frame, a []Value) Value {
			e.now = a[0].(*Term)
			e.clockPinned = true
			e.usedClock = true
			return nil
		},
		"verif_ClockFree": func(e *Engine, fr *frame, a []Value) Value { e.clockPinned = false; return nil },
		"verif_Steps":     func(e *Engine, fr *frame, a []Value) Value { return e.mkInt(int64(e.steps)) },
	}

	intercepts = map[string]intercept{}
	reg := func(names string, f intercept) {
		for _, n := range strings.Fields(names) {
			intercepts[n] = f
		}
	}
	nop := func(e *Engine, fr *frame, a []Value) Value { return e.zeroResults(fr.fn) }

	// ---- sync -----------------------------------------------------------------
	reg("(*sync.Mutex).Lock (*sync.RWMutex).Lock", func(e *Engine, fr *frame, a []Value) Value {
		e.Yield()
		s := e.syncFor(a[0].(Ptr))
		e.Block(func() bool { return !s.locked && s.readers == 0 }, "mutex lock")
		s.locked = true
		s.owner = e.cur.id
		e.cur.lockDepth++
		return nil
	})
	reg("(*sync.Mutex).TryLock (*sync.RWMutex).TryLock", func(e *Engine, fr *frame, a []Value) Value {
		e.Yield()
		s := e.syncFor(a[0].(Ptr))
		if !s.locked && s.readers == 0 {
			s.locked = true
			s.owner = e.cur.id
			e.cur.lockDepth++
			return e.tb.True
		}
		return e.tb.False
	})
	reg("(*sync.Mutex).Unlock (*sync.RWMutex).Unlock", func(e *Engine, fr *frame, a []Value) Value {
		s := e.syncFor(a[0].(Ptr))
		if !s.locked {
			panic(e.targetPanicStr("fatal error: sync: unlock of unlocked mutex"))
		}
		s.locked = false
		if e.cur.lockDepth > 0 {
			e.cur.lockDepth--
		}
		e.Yield()
		return nil
	})
	reg("(*sync.RWMutex).RLock", func(e *Engine, fr *frame, a []Value) Value {
		e.Yield()
		s := e.syncFor(a[0].(Ptr))
		e.Block(func() bool { return !s.locked }, "rwmutex rlock")
		s.readers++
		e.cur.lockDepth++
		return nil
	})
	reg("(*sync.RWMutex).TryRLock", func(e *Engine, fr *frame, a []Value) Value {
		e.Yield()
		s := e.syncFor(a[0].(Ptr))
		if !s.locked {
			s.readers++
			return e.tb.True
		}
		return e.tb.False
	})
	reg("(*sync.RWMutex).RUnlock", func(e *Engine, fr *frame, a []Value) Value {
		s := e.syncFor(a[0].(Ptr))
		if s.readers <= 0 {
			panic(e.targetPanicStr("fatal error: sync: RUnlock of unlocked RWMutex"))
		}
		s.readers--
		if e.cur.lockDepth > 0 {
			e.cur.lockDepth--
		}
		e.Yield()
		return nil
	})
	reg("(*sync.Once).Do", func(e *Engine, fr *frame, a []Value) Value {
		e.Yield()
		s := e.syncFor(a[0].(Ptr))
		// a second caller blocks until the first finished
		e.Block(func() bool { return !s.locked }, "once")
		if s.onceDone {
			return nil
		}
		s.locked = true
		defer func() { s.onceDone = true; s.locked = false }()
		e.call(fr, fr.th, a[1], nil, 0)
		return nil
	})
	reg("(*sync.WaitGroup).Add", func(e *Engine, fr *frame, a []Value) Value {
		s := e.syncFor(a[0].(Ptr))
		s.wgCount += e.concInt(a[1].(*Term), "wg delta")
		if s.wgCount < 0 {
			panic(e.targetPanicStr("sync: negative WaitGroup counter"))
		}
		e.Yield()
		return nil
	})
	reg("(*sync.WaitGroup).Done", func(e *Engine, fr *frame, a []Value) Value {
		s := e.syncFor(a[0].(Ptr))
		s.wgCount--
		if s.wgCount < 0 {
			panic(e.targetPanicStr("sync: negative WaitGroup counter"))
		}
		e.Yield()
		return nil
	})
	reg("(*sync.WaitGroup).Wait", func(e *Engine, fr *frame, a []Value) Value {
		e.Yield()
		s := e.syncFor(a[0].(Ptr))
		e.Block(func() bool { return s.wgCount == 0 }, "waitgroup wait")
		return nil
	})
	reg("(*sync.WaitGroup).Go", func(e *Engine, fr *frame, a []Value) Value {
		s := e.syncFor(a[0].(Ptr))
		s.wgCount++
		fn := a[1]
		e.Spawn("wg.Go", func(t *Thread) {
			e.call(nil, t, fn, nil, 0)
			s.wgCount--
		})
		e.Yield()
		return nil
	})
	// sync.Pool reuses whenever it can (LIFO): an object handed back with Put is what the next Get
	// returns. The real pool may or may not reuse; assuming it does is the behaviour under which
	// use-after-Put and stale-content bugs show.
	reg("(*sync.Pool).Get", func(e *Engine, fr *frame, a []Value) Value {
		p := a[0].(Ptr)
		pool := p.B.E[p.I].(*Backing)
		if st := e.pools[pool]; len(st) > 0 {
			v := st[len(st)-1]
			e.pools[pool] = st[:len(st)-1]
			return v
		}
		// field "New" is the last field of sync.Pool
		newf := pool.E[len(pool.E)-1]
		if _, isNil := newf.(nilFunc); isNil {
			return Iface{}
		}
		return e.call(fr, fr.th, newf, nil, 0)
	})
	reg("(*sync.Pool).Put", func(e *Engine, fr *frame, a []Value) Value {
		p := a[0].(Ptr)
		pool := p.B.E[p.I].(*Backing)
		if x, ok := a[1].(Iface); ok && x.T != nil {
			if e.pools == nil {
				e.pools = map[*Backing][]Value{}
			}
			e.pools[pool] = append(e.pools[pool], x)
		}
		return nil
	})
	reg("(*sync.Cond).Wait (*sync.Cond).Signal (*sync.Cond).Broadcast", func(e *Engine, fr *frame, a []Value) Value {
		panic(e.unsupported("sync.Cond"))
	})

	// ---- sync/atomic (functions without bodies) -----------------------------------
	atomicLoad := func(e *Engine, fr *frame, a []Value) Value { e.Yield(); return e.load(a[0].(Ptr)) }
	atomicStore := func(e *Engine, fr *frame, a []Value) Value { e.Yield(); e.store(a[0].(Ptr), a[1]); return nil }
	atomicAdd := func(e *Engine, fr *frame, a []Value) Value {
		e.Yield()
		p := a[0].(Ptr)
		nv := e.tb.Bin(OpAdd, e.load(p).(*Term), a[1].(*Term))
		e.store(p, nv)
		return nv
	}
	atomicSwap := func(e *Engine, fr *frame, a []Value) Value {
		e.Yield()
		p := a[0].(Ptr)
		old := e.load(p)
		e.store(p, a[1])
		return old
	}
	atomicCAS := func(e *Engine, fr *frame, a []Value) Value {
		e.Yield()
		p := a[0].(Ptr)
		cur := e.load(p)
		if e.Branch(e.eqVal(cur, a[1])) {
			e.store(p, a[2])
			return e.tb.True
		}
		return e.tb.False
	}
	atomicAndOr := func(and bool) intercept {
		return func(e *Engine, fr *frame, a []Value) Value {
			e.Yield()
			p := a[0].(Ptr)
			old := e.load(p).(*Term)
			op := OpBOr
			if and {
				op = OpBAnd
			}
			e.store(p, e.tb.Bin(op, old, a[1].(*Term)))
			return old
		}
	}
	for _, ty := range []string{"Int32", "Int64", "Uint32", "Uint64", "Uintptr", "Pointer"} {
		reg("sync/atomic.Load"+ty, atomicLoad)
		reg("sync/atomic.Store"+ty, atomicStore)
		reg("sync/atomic.Swap"+ty, atomicSwap)
		reg("sync/atomic.CompareAndSwap"+ty, atomicCAS)
		if ty != "Pointer" {
			reg("sync/atomic.Add"+ty, atomicAdd)
			reg("sync/atomic.And"+ty, atomicAndOr(true))
			reg("sync/atomic.Or"+ty, atomicAndOr(false))
		}
	}
	// atomic.Value: stored as interface in the first field
	reg("(*sync/atomic.Value).Load", func(e *Engine, fr *frame, a []Value) Value {
		e.Yield()
		p := a[0].(Ptr)
		return p.B.E[p.I].(*Backing).E[0]
	})
	reg("(*sync/atomic.Value).Store", func(e *Engine, fr *frame, a []Value) Value {
		e.Yield()
		p := a[0].(Ptr)
		if a[1].(Iface).T == nil {
			panic(e.targetPanicStr("sync/atomic: store of nil value into Value"))
		}
		p.B.E[p.I].(*Backing).E[0] = a[1]
		return nil
	})
	reg("(*sync/atomic.Value).Swap", func(e *Engine, fr *frame, a []Value) Value {
		e.Yield()
		p := a[0].(Ptr)
		old := p.B.E[p.I].(*Backing).E[0]
		p.B.E[p.I].(*Backing).E[0] = a[1]
		return old
	})
	reg("(*sync/atomic.Value).CompareAndSwap", func(e *Engine, fr *frame, a []Value) Value {
		e.Yield()
		p := a[0].(Ptr)
		cur := p.B.E[p.I].(*Backing).E[0]
		if e.Branch(e.eqVal(cur, a[1])) {
			p.B.E[p.I].(*Backing).E[0] = a[2]
			return e.tb.True
		}
		return e.tb.False
	})

	// ---- runtime / os -----------------------------------------------------------
	reg("runtime.Gosched", func(e *Engine, fr *frame, a []Value) Value { e.Yield(); return nil })
	reg("runtime.KeepAlive runtime.SetFinalizer runtime.GC runtime/debug.SetGCPercent runtime/debug.FreeOSMemory", nop)
	reg("runtime.NumGoroutine", func(e *Engine, fr *frame, a []Value) Value {
		n := 0
		for _, t := range e.threads {
			if !t.done {
				n++
			}
		}
		return e.mkInt(int64(n))
	})
	reg("runtime.Caller", func(e *Engine, fr *frame, a []Value) Value {
		return Tuple{e.tb.Const(64, 0), Str{S: "?"}, e.mkInt(0), e.tb.False}
	})
	reg("runtime/debug.Stack", func(e *Engine, fr *frame, a []Value) Value { return e.mkConcByteSlice([]byte("stack")) })
	reg("os.Getenv", func(e *Engine, fr *frame, a []Value) Value { return Str{} })
	reg("os.LookupEnv", func(e *Engine, fr *frame, a []Value) Value { return Tuple{Str{}, e.tb.False} })

	// ---- errors -----------------------------------------------------------------
	reg("errors.Is", func(e *Engine, fr *frame, a []Value) Value { return e.tb.Bool(e.errorsIs(fr, a[0].(Iface), a[1].(Iface), 0)) })
	reg("errors.As", func(e *Engine, fr *frame, a []Value) Value { return e.tb.Bool(e.errorsAs(fr, a[0].(Iface), a[1].(Iface), 0)) })

	// ---- fmt ----------------------------------------------------------------------
	reg("fmt.Sprintf", func(e *Engine, fr *frame, a []Value) Value {
		return e.sprintf(fr, a[0].(Str), a[1].(Slice))
	})
	reg("fmt.Errorf", func(e *Engine, fr *frame, a []Value) Value { return e.errorf(fr, a[0].(Str), a[1].(Slice)) })
	reg("fmt.Sprint fmt.Sprintln", func(e *Engine, fr *frame, a []Value) Value {
		s := a[0].(Slice)
		out := Str{}
		for i := 0; i < s.Len; i++ {
			if i > 0 {
				out = e.strConcat(out, Str{S: " "})
			}
			out = e.strConcat(out, e.fmtValue(fr, 'v', s.B.E[s.Off+i]))
		}
		return out
	})
	reg("fmt.Printf fmt.Println fmt.Print fmt.Fprintf fmt.Fprintln fmt.Fprint", func(e *Engine, fr *frame, a []Value) Value {
		return Tuple{e.mkInt(0), Iface{}}
	})
	reg("log.Printf log.Println log.Print", nop)

	// ---- strconv -------------------------------------------------------------------
	reg("strconv.Itoa", func(e *Engine, fr *frame, a []Value) Value {
		return Str{S: strconv.FormatInt(e.concInt(a[0].(*Term), "Itoa"), 10)}
	})
	reg("strconv.FormatInt", func(e *Engine, fr *frame, a []Value) Value {
		return Str{S: strconv.FormatInt(e.concInt(a[0].(*Term), "FormatInt"), int(e.concInt(a[1].(*Term), "base")))}
	})
	reg("strconv.FormatUint", func(e *Engine, fr *frame, a []Value) Value {
		return Str{S: strconv.FormatUint(e.Concretize(a[0].(*Term), "FormatUint"), int(e.concInt(a[1].(*Term), "base")))}
	})
	reg("strconv.Atoi", func(e *Engine, fr *frame, a []Value) Value {
		s := e.concStr(a[0], "Atoi")
		v, err := strconv.Atoi(s)
		if err != nil {
			return Tuple{e.mkInt(0), e.mkError(err.Error())}
		}
		return Tuple{e.mkInt(int64(v)), Iface{}}
	})
	reg("strconv.ParseInt", func(e *Engine, fr *frame, a []Value) Value {
		s := e.concStr(a[0], "ParseInt")
		v, err := strconv.ParseInt(s, int(e.concInt(a[1].(*Term), "base")), int(e.concInt(a[2].(*Term), "bits")))
		if err != nil {
			return Tuple{e.mkInt(v), e.mkError(err.Error())}
		}
		return Tuple{e.mkInt(v), Iface{}}
	})
	reg("strconv.ParseUint", func(e *Engine, fr *frame, a []Value) Value {
		s := e.concStr(a[0], "ParseUint")
		v, err := strconv.ParseUint(s, int(e.concInt(a[1].(*Term), "base")), int(e.concInt(a[2].(*Term), "bits")))
		if err != nil {
			return Tuple{e.tb.Const(64, v), e.mkError(err.Error())}
		}
		return Tuple{e.tb.Const(64, v), Iface{}}
	})
	reg("strconv.Quote", func(e *Engine, fr *frame, a []Value) Value { return Str{S: strconv.Quote(e.concStr(a[0], "Quote"))} })

	// ---- internal/bytealg ----------------------------------------------------------
	reg("internal/bytealg.IndexByte", func(e *Engine, fr *frame, a []Value) Value {
		return e.indexByte(e.sliceTerms(a[0].(Slice)), a[1].(*Term))
	})
	reg("internal/bytealg.IndexByteString", func(e *Engine, fr *frame, a []Value) Value {
		return e.indexByte(e.strBytes(a[0].(Str)), a[1].(*Term))
	})
	reg("internal/bytealg.Equal", func(e *Engine, fr *frame, a []Value) Value {
		x, y := e.sliceTerms(a[0].(Slice)), e.sliceTerms(a[1].(Slice))
		if len(x) != len(y) {
			return e.tb.False
		}
		r := e.tb.True
		for i := range x {
			r = e.tb.And(r, e.tb.Eq(x[i], y[i]))
		}
		return r
	})
	reg("internal/bytealg.Count", func(e *Engine, fr *frame, a []Value) Value {
		return e.countByte(e.sliceTerms(a[0].(Slice)), a[1].(*Term))
	})
	reg("internal/bytealg.CountString", func(e *Engine, fr *frame, a []Value) Value {
		return e.countByte(e.strBytes(a[0].(Str)), a[1].(*Term))
	})
	reg("internal/bytealg.Compare", func(e *Engine, fr *frame, a []Value) Value {
		x := e.normStr(e.sliceTerms(a[0].(Slice)), nil)
		y := e.normStr(e.sliceTerms(a[1].(Slice)), nil)
		if e.Branch(e.strEq(x, y)) {
			return e.mkInt(0)
		}
		if e.Branch(e.strLess(x, y)) {
			return e.mkInt(-1)
		}
		return e.mkInt(1)
	})
	reg("internal/bytealg.IndexString strings.Index", func(e *Engine, fr *frame, a []Value) Value {
		return e.indexStr(a[0].(Str), a[1].(Str))
	})
	reg("internal/bytealg.Index", func(e *Engine, fr *frame, a []Value) Value {
		return e.indexStr(e.normStr(e.sliceTerms(a[0].(Slice)), nil), e.normStr(e.sliceTerms(a[1].(Slice)), nil))
	})
	reg("internal/bytealg.MakeNoZero", func(e *Engine, fr *frame, a []Value) Value {
		n := int(e.concInt(a[0].(*Term), "MakeNoZero"))
		b := &Backing{E: make([]Value, n)}
		for i := range b.E {
			b.E[i] = e.tb.Const(8, 0)
		}
		return Slice{B: b, Len: n, Cap: n}
	})
	reg("strings.Contains", func(e *Engine, fr *frame, a []Value) Value {
		r := e.indexStr(a[0].(Str), a[1].(Str)).(*Term)
		return e.tb.Cmp(OpSle, e.tb.Const(64, 0), r)
	})
	reg("strings.ToLower strings.ToUpper", func(e *Engine, fr *frame, a []Value) Value {
		s := a[0].(Str)
		lower := strings.HasSuffix(fr.fn.Name(), "Lower")
		if s.IsConc() {
			if lower {
				return Str{S: strings.ToLower(s.S)}
			}
			return Str{S: strings.ToUpper(s.S)}
		}
		out := make([]*Term, len(s.Sym))
		for i, b := range s.Sym {
			hi := e.tb.Cmp(OpUle, e.tb.Const(8, 0x80), b)
			if e.Branch(hi) {
				panic(e.unsupported("ToLower/ToUpper on non-ASCII symbolic byte"))
			}
			var lo, up uint64 = 'A', 'Z'
			if !lower {
				lo, up = 'a', 'z'
			}
			in := e.tb.And(e.tb.Cmp(OpUle, e.tb.Const(8, lo), b), e.tb.Cmp(OpUle, b, e.tb.Const(8, up)))
			out[i] = e.tb.Ite(in, e.tb.Bin(OpBXor, b, e.tb.Const(8, 0x20)), b)
		}
		return e.normStr(out, nil)
	})

	// ---- crypto / random ------------------------------------------------------------
	reg("crypto/rand.Read io.ReadFull$rand", func(e *Engine, fr *frame, a []Value) Value {
		s := a[0].(Slice)
		if dom := e.cfg.Bounds["rand_domain"]; dom > 0 && s.Len > 0 {
			// small-domain randomness: all bytes zero except the last, which is a tape draw in
			// [0, dom). Candidate ids/codes then come from a tiny set, so "both callers draw
			// the same value" is a solver choice; natively verifRandReader feeds the same bytes.
			for i := 0; i < s.Len-1; i++ {
				s.B.E[s.Off+i] = e.tb.Const(8, 0)
			}
			b := e.fresh("byte", BV(8))
			e.Assume(e.tb.Cmp(OpUlt, b, e.tb.Const(8, uint64(dom))))
			s.B.E[s.Off+s.Len-1] = b
			return Tuple{e.mkInt(int64(s.Len)), Iface{}}
		}
		for i := 0; i < s.Len; i++ {
			s.B.E[s.Off+i] = e.freshInternal("rand", BV(8))
		}
		return Tuple{e.mkInt(int64(s.Len)), Iface{}}
	})
	reg("math/rand.Intn math/rand.Int63n math/rand.Int31n math/rand/v2.IntN math/rand/v2.Int64N", func(e *Engine, fr *frame, a []Value) Value {
		n := a[0].(*Term)
		x := e.freshInternal("rand", n.S)
		e.Assume(e.tb.Cmp(OpUlt, x, n))
		return x
	})
	reg("math/rand.Int63 math/rand.Int math/rand.Uint32 math/rand.Uint64 math/rand.Int31", func(e *Engine, fr *frame, a []Value) Value {
		w := 64
		if strings.HasSuffix(fr.fn.Name(), "32") || strings.HasSuffix(fr.fn.Name(), "31") {
			w = 32
		}
		x := e.freshInternal("rand", BV(w))
		if strings.HasPrefix(fr.fn.Name(), "Int") {
			e.Assume(e.tb.Cmp(OpSle, e.tb.Const(w, 0), x))
		}
		return x
	})
	reg("math/rand.Float64", func(e *Engine, fr *frame, a []Value) Value { return float64(0.5) })
	reg("math/rand.Seed", nop)

	registerTime(reg, nop)
	registerJSON(reg, nop)
	registerSyncMap(reg, nop)
}

// interceptByPattern handles families of functions (logging etc.).
func interceptByPattern(key string) intercept {
	switch {
	case strings.HasPrefix(key, "tunnox-core/internal/core/log."):
		name := key[strings.LastIndex(key, ".")+1:]
		switch name {
		case "WithField", "WithFields", "WithError", "WithContext", "Default", "NewNopLogger":
			return func(e *Engine, fr *frame, a []Value) Value { return e.nopLogger(fr.fn) }
		}
		return func(e *Engine, fr *frame, a []Value) Value { return e.zeroResults(fr.fn) }
	case strings.HasPrefix(key, "(*tunnox-core/internal/core/log.logrusLogger)."):
		return func(e *Engine, fr *frame, a []Value) Value {
			if fr.fn.Signature.Results().Len() == 1 {
				return e.nopLogger(fr.fn)
			}
			return e.zeroResults(fr.fn)
		}
	case strings.HasPrefix(key, "tunnox-core/internal/core/dispose.") && isLogName(key[strings.LastIndex(key, ".")+1:]):
		return func(e *Engine, fr *frame, a []Value) Value { return e.zeroResults(fr.fn) }
	case strings.HasPrefix(key, "github.com/sirupsen/logrus.") || strings.HasPrefix(key, "(*github.com/sirupsen/logrus."):
		return func(e *Engine, fr *frame, a []Value) Value {
			rs := fr.fn.Signature.Results()
			if rs.Len() > 0 {
				panic(e.unsupported("logrus call with results: " + key))
			}
			return nil
		}
	case strings.HasPrefix(key, "(time.Time).") || strings.HasPrefix(key, "(*time.Time)."):
		return func(e *Engine, fr *frame, a []Value) Value { panic(e.unsupported("time method " + key)) }
	}
	return nil
}

func isLogName(n string) bool {
	switch n {
	case "Debugf", "Infof", "Warnf", "Errorf", "Warn", "Error", "Info", "Debug", "log":
		return true
	}
	return false
}

func (e *Engine) nopLogger(fn *ssa.Function) Value {
	pkg := e.prog.ImportedPackage("tunnox-core/internal/core/log")
	if pkg == nil {
		panic(e.unsupported("core/log package not loaded"))
	}
	t := pkg.Type("NopLogger")
	if t == nil {
		panic(e.unsupported("NopLogger type not found"))
	}
	return Iface{T: t.Object().Type(), V: e.zero(t.Object().Type())}
}

// mkError builds an *errors.errorString value.
func (e *Engine) mkError(msg string) Value {
	pkg := e.prog.ImportedPackage("errors")
	if pkg == nil {
		panic(e.unsupported("errors package not loaded"))
	}
	t := pkg.Type("errorString").Object().Type()
	sb := &Backing{E: []Value{Str{S: msg}}}
	return Iface{T: types.NewPointer(t), V: Ptr{B: &Backing{E: []Value{sb}}}}
}

// ---- errors.Is / As ------------------------------------------------------------------

func (e *Engine) callMethod(fr *frame, recv Iface, name string, args ...Value) (Value, bool) {
	if recv.T == nil {
		return nil, false
	}
	ms := e.prog.MethodSets.MethodSet(recv.T)
	for i := 0; i < ms.Len(); i++ {
		sel := ms.At(i)
		if sel.Obj().Name() == name {
			f := e.prog.MethodValue(sel)
			if f == nil {
				return nil, false
			}
			return e.call(fr, fr.th, f, append([]Value{recv.V}, args...), 0), true
		}
	}
	return nil, false
}

func (e *Engine) errorsIs(fr *frame, err, target Iface, depth int) bool {
	if depth > 20 {
		panic(e.unsupported("errors.Is chain too deep"))
	}
	if err.T == nil || target.T == nil {
		return err.T == nil && target.T == nil
	}
	if types.Comparable(target.T) && types.Identical(err.T, target.T) {
		if e.Branch(e.eqVal(err.V, target.V)) {
			return true
		}
	}
	if r, ok := e.callMethod(fr, err, "Is", target); ok {
		if t, isT := r.(*Term); isT && e.Branch(t) {
			return true
		}
	}
	if r, ok := e.callMethod(fr, err, "Unwrap"); ok {
		switch u := r.(type) {
		case Iface:
			if u.T == nil {
				return false
			}
			return e.errorsIs(fr, u, target, depth+1)
		case Slice:
			for i := 0; i < u.Len; i++ {
				if e.errorsIs(fr, u.B.E[u.Off+i].(Iface), target, depth+1) {
					return true
				}
			}
		}
	}
	return false
}

func (e *Engine) errorsAs(fr *frame, err, target Iface, depth int) bool {
	if depth > 20 {
		panic(e.unsupported("errors.As chain too deep"))
	}
	if target.T == nil {
		panic(e.targetPanicStr("errors: target cannot be nil"))
	}
	pt, ok := target.T.Underlying().(*types.Pointer)
	if !ok {
		panic(e.targetPanicStr("errors: target must be a non-nil pointer"))
	}
	want := pt.Elem()
	for err.T != nil {
		if itf, isItf := want.Underlying().(*types.Interface); isItf {
			if m, _ := types.MissingMethod(err.T, itf, true); m == nil {
				e.store(target.V.(Ptr), err)
				return true
			}
		} else if types.Identical(err.T, want) {
			e.store(target.V.(Ptr), err.V)
			return true
		}
		if r, ok := e.callMethod(fr, err, "As", target); ok {
			if t, isT := r.(*Term); isT && e.Branch(t) {
				return true
			}
		}
		r, ok := e.callMethod(fr, err, "Unwrap")
		if !ok {
			return false
		}
		switch u := r.(type) {
		case Iface:
			err = u
		case Slice:
			for i := 0; i < u.Len; i++ {
				if e.errorsAs(fr, u.B.E[u.Off+i].(Iface), target, depth+1) {
					return true
				}
			}
			return false
		default:
			return false
		}
	}
	return false
}

// ---- byte search helpers ----------------------------------------------------------------

func (e *Engine) indexByte(bs []*Term, c *Term) Value {
	for i, b := range bs {
		if e.Branch(e.tb.Eq(b, c)) {
			return e.mkInt(int64(i))
		}
	}
	return e.mkInt(-1)
}

func (e *Engine) countByte(bs []*Term, c *Term) Value {
	r := e.tb.Const(64, 0)
	for _, b := range bs {
		r = e.tb.Bin(OpAdd, r, e.tb.Ite(e.tb.Eq(b, c), e.tb.Const(64, 1), e.tb.Const(64, 0)))
	}
	return r
}

func (e *Engine) indexStr(s, sub Str) Value {
	if s.IsConc() && sub.IsConc() {
		return e.mkInt(int64(strings.Index(s.S, sub.S)))
	}
	n, m := s.Len(), sub.Len()
	for i := 0; i+m <= n; i++ {
		if e.Branch(e.strEq(e.strSlice(s, i, i+m), sub)) {
			return e.mkInt(int64(i))
		}
	}
	return e.mkInt(-1)
}

// ---- fmt ------------------------------------------------------------------------------

// fmtValue renders one operand. Symbolic integers are case-split (they end up in
// storage keys and similar, where a concrete string is needed).
func (e *Engine) fmtValue(fr *frame, verb byte, v Value) Str {
	switch x := v.(type) {
	case nil:
		return Str{S: "<nil>"}
	case Iface:
		if x.T == nil {
			return Str{S: "<nil>"}
		}
		// error / Stringer
		if verb != 'd' && verb != 'x' && verb != 'T' {
			if r, ok := e.callMethod(fr, x, "Error"); ok {
				return r.(Str)
			}
			if r, ok := e.callMethod(fr, x, "String"); ok {
				return r.(Str)
			}
		}
		if verb == 'T' {
			return Str{S: x.T.String()}
		}
		return e.fmtTyped(fr, verb, x.V, x.T)
	}
	return e.fmtTyped(fr, verb, v, nil)
}

func (e *Engine) fmtTyped(fr *frame, verb byte, v Value, t types.Type) Str {
	switch x := v.(type) {
	case *Term:
		if e.fmtLenient && !x.IsConst() {
			return Str{S: "<sym>"}
		}
		if x.S.K == KBool {
			b := e.Branch(x)
			return Str{S: strconv.FormatBool(b)}
		}
		signed := true
		if t != nil {
			signed = typeSigned(t)
		}
		c := e.Concretize(x, "formatted integer")
		base := 10
		if verb == 'x' {
			base = 16
		}
		if verb == 'c' {
			return Str{S: string(rune(c))}
		}
		if signed {
			return Str{S: strconv.FormatInt(sext64(c, x.S.W), base)}
		}
		return Str{S: strconv.FormatUint(c, base)}
	case float64:
		return Str{S: strconv.FormatFloat(x, 'g', -1, 64)}
	case Str:
		if e.fmtLenient && !x.IsConc() {
			return Str{S: "<symstr>"}
		}
		if verb == 'q' {
			return e.strConcat(e.strConcat(Str{S: "\""}, x), Str{S: "\""})
		}
		if verb == 'x' {
			if x.IsConc() {
				return Str{S: fmt.Sprintf("%x", x.S)}
			}
			panic(e.unsupported("%x of symbolic string"))
		}
		return x
	case Slice:
		if verb == 'x' || verb == 's' {
			allT := true
			for i := 0; i < x.Len; i++ {
				if tm, ok := x.B.E[x.Off+i].(*Term); !ok || tm.S.W != 8 {
					allT = false
				}
			}
			if allT {
				s := e.normStr(e.sliceTerms(x), nil)
				if verb == 's' {
					return s
				}
				if s.IsConc() {
					return Str{S: fmt.Sprintf("%x", s.S)}
				}
				panic(e.unsupported("%x of symbolic bytes"))
			}
		}
		out := Str{S: "["}
		for i := 0; i < x.Len; i++ {
			if i > 0 {
				out = e.strConcat(out, Str{S: " "})
			}
			out = e.strConcat(out, e.fmtValue(fr, verb, x.B.E[x.Off+i]))
		}
		return e.strConcat(out, Str{S: "]"})
	case Ptr:
		if x.B == nil {
			return Str{S: "<nil>"}
		}
		return Str{S: "0xc000000000"}
	case *Backing:
		return Str{S: "{...}"}
	case *MapObj:
		return Str{S: "map[...]"}
	}
	return Str{S: fmt.Sprintf("<%T>", v)}
}

func (e *Engine) sprintf(fr *frame, format Str, args Slice) Str {
	f := e.concStr(format, "format string")
	// Messages (error texts, log lines) are never the subject: symbolic operands are
	// rendered as placeholders there instead of being case-split. Keys and ids
	// (no blanks in the format) are rendered exactly.
	old := e.fmtLenient
	defer func() { e.fmtLenient = old }()
	if strings.Contains(f, " ") || fr.fn.Name() == "Errorf" {
		e.fmtLenient = true
	}
	if c := fr.caller; c != nil && c.fn.Pkg != nil && strings.HasSuffix(c.fn.Pkg.Pkg.Path(), "internal/core/errors") {
		e.fmtLenient = true
	}
	out := Str{}
	ai := 0
	i := 0
	lit := func(s string) { out = e.strConcat(out, Str{S: s}) }
	for i < len(f) {
		j := strings.IndexByte(f[i:], '%')
		if j < 0 {
			lit(f[i:])
			break
		}
		lit(f[i : i+j])
		i += j + 1
		if i >= len(f) {
			lit("%!(NOVERB)")
			break
		}
		// flags / width / precision
		k := i
		for k < len(f) && strings.IndexByte("+-# 0123456789.*", f[k]) >= 0 {
			k++
		}
		spec := f[i:k]
		if k >= len(f) {
			lit("%!(NOVERB)")
			break
		}
		verb := f[k]
		i = k + 1
		if verb == '%' {
			lit("%")
			continue
		}
		if ai >= args.Len {
			lit("%!" + string(verb) + "(MISSING)")
			continue
		}
		arg := args.B.E[args.Off+ai]
		ai++
		if verb == 'w' {
			verb = 'v'
		}
		s := e.fmtValue(fr, verb, arg)
		if spec != "" && s.IsConc() {
			// apply simple zero/space padding for integers and strings
			if w, err := strconv.Atoi(strings.TrimLeft(strings.TrimLeft(spec, "-+ #"), "0")); err == nil && w > len(s.S) && !strings.Contains(spec, ".") {
				pad := " "
				if strings.HasPrefix(strings.TrimLeft(spec, "-+ #"), "0") && !strings.HasPrefix(spec, "-") {
					pad = "0"
				}
				if strings.HasPrefix(spec, "-") {
					s = Str{S: s.S + strings.Repeat(" ", w-len(s.S))}
				} else {
					s = Str{S: strings.Repeat(pad, w-len(s.S)) + s.S}
				}
			} else if strings.Contains(spec, ".") {
				if f, ok := stripIface(arg).(float64); ok {
					s = Str{S: fmt.Sprintf("%"+spec+string(verb), f)}
				}
			}
		}
		out = e.strConcat(out, s)
	}
	return out
}

func stripIface(v Value) Value {
	if i, ok := v.(Iface); ok {
		return i.V
	}
	return v
}

// errorf builds *fmt.wrapError when the format has %w, else *errors.errorString.
func (e *Engine) errorf(fr *frame, format Str, args Slice) Value {
	msg := e.sprintf(fr, format, args)
	f := e.concStr(format, "format")
	wi := -1
	ai := 0
	for i := 0; i+1 < len(f); i++ {
		if f[i] == '%' {
			k := i + 1
			for k < len(f) && strings.IndexByte("+-# 0123456789.*", f[k]) >= 0 {
				k++
			}
			if k < len(f) {
				if f[k] == 'w' && wi < 0 {
					wi = ai
				}
				if f[k] != '%' {
					ai++
				}
			}
			i = k
		}
	}
	if wi >= 0 && wi < args.Len {
		if inner, ok := args.B.E[args.Off+wi].(Iface); ok {
			pkg := e.prog.ImportedPackage("fmt")
			if pkg != nil && pkg.Type("wrapError") != nil {
				t := pkg.Type("wrapError").Object().Type()
				sb := &Backing{E: []Value{msg, inner}}
				return Iface{T: types.NewPointer(t), V: Ptr{B: &Backing{E: []Value{sb}}}}
			}
		}
	}
	pkg := e.prog.ImportedPackage("errors")
	t := pkg.Type("errorString").Object().Type()
	sb := &Backing{E: []Value{msg}}
	return Iface{T: types.NewPointer(t), V: Ptr{B: &Backing{E: []Value{sb}}}}
}
