package engine

import (
	"os"
	"fmt"
	"go/types"
	"sort"
	"strings"

	"golang.org/x/tools/go/ssa"
)

// ---- configuration and results ------------------------------------------------

type Config struct {
	Property      string
	Tier          string
	MaxSteps      int            // SSA instructions per path
	Preempt       int            // preemption bound for the scheduler
	Bounds        map[string]int // verif_Bound values
	ConcretizeMax int            // max distinct values when case-splitting a term
	KnownListed   map[string]bool
	QueryTimeout  int // ms
	LoopFuel      int // max visits of one loop head per frame
	RepoModule    string
	Trace         bool
	PanicIsViolation bool
	BudgetIsViolation bool
	DeadlockIsViolation bool
	// Stubs: calls of the named functions (funcKey, e.g. "(github.com/x/y.T).M") run the given harness
	// function instead, with the same arguments - an environment model written in Go, executed
	// symbolically; natively the real function runs
	Stubs map[string]*ssa.Function
}

type Draw struct {
	Kind string // byte,bool,int,choose,...
	Name string
	T    *Term  // nil for structural decisions (choose/sched)
	V    uint64 // value for structural decisions
	W    int
}

type TapeDraw struct {
	Kind string `json:"kind"`
	Name string `json:"name"`
	V    uint64 `json:"v"`
}

type Tape struct {
	Property  string     `json:"property"`
	Harness   string     `json:"harness"`
	Label     string     `json:"label"`
	Kind      string     `json:"kind"` // violation | cover | known
	Tier      string     `json:"tier"`
	Bounds    map[string]int `json:"bounds"`
	Decisions []uint64   `json:"decisions"`
	Draws     []TapeDraw `json:"draws"`
	Sched     []int      `json:"schedule"`
	Msg       string     `json:"msg,omitempty"`
	KnownID   string     `json:"known_finding,omitempty"`
	Solver    string     `json:"solver"`
	UsesClock bool       `json:"uses_clock"`
	GateOrder []int      `json:"gate_order,omitempty"` // order in which gated goroutines (verif_GoGate) first ran
}

type Event struct {
	Kind  string // violation, cover, known, inconclusive, panic, deadlock, budget
	Label string
	Msg   string
	Tape  *Tape
}

type PathResult struct {
	End       string // done, infeasible, cut, unsupported, budget, panic, deadlock
	Msg       string
	Steps     int
	Events    []Event
	AssertsOK int
	Funcs     map[string]bool
	NDec      int
}

type WorkItem struct {
	Dec   []uint64
	Model Model
}

// pathEnd is the Go panic value used to unwind the interpreter at the end of a path.
type pathEnd struct {
	kind string
	msg  string
}

type targetPanic struct {
	v   Value
	msg string
}

// ---- engine -------------------------------------------------------------------

type Engine struct {
	prog   *ssa.Program
	tb     *TB
	solver *Solver
	cfg    *Config
	emit   func(WorkItem)
	covered func(label string) bool // true if label already witnessed globally

	harness string

	// stable (per worker) globals of non-repo packages
	stableGlobals map[*ssa.Global]*Backing
	stableInit    map[*ssa.Package]bool

	// per path
	dec        []uint64
	dpos       int
	taken      []uint64
	model      Model
	modelStale bool
	draws      []Draw
	vars       []*Term
	ndraw      int
	steps      int
	globals    map[*ssa.Global]*Backing
	pkgInit    map[*ssa.Package]bool
	res        *PathResult
	known      []knownPred
	allocLimit int64
	nblob      int
	inInit     int
	sched      []int

	// threads
	threads  []*Thread
	cur      *Thread
	aborting bool
	preempts int
	pins      map[int]*Term // term id -> constant it is known to equal on this path
	substMemo map[int]*Term
	pendingEnd   *pathEnd
	pendingPanic *targetPanic

	sync map[*Backing]map[int]*syncState // sync objects keyed by (backing, index)

	now      *Term // current symbolic clock (BV64 ns), non-decreasing
	ghost    map[string]Value
	runtimeErrT types.Type
	anyOrder    bool
	clockPinned bool
	timers      []*ChanObj // every timer channel created on this path (idle clock advance)
	ngates      int        // gated goroutines created on this path (verif_GoGate)
	gateOrder   []int      // their first-activation order
	fmtLenient  bool
	usedClock   bool
	lastFn      string
	randInts    int
	explicitYield bool
	gzWriters   map[*Backing]*gzW
	gzReaders   map[*Backing]*gzR
	gzSpin      int
	blobs       map[int]*Blob
	tcpConns    map[*Backing]*tcpModel
	keepTimers  bool
	jsonHavoc   func(e *Engine, fr *frame, data Slice, dst Iface) Value
	syncMaps    map[*Backing]map[int]*MapObj
	pools       map[*Backing][]Value // sync.Pool contents (LIFO reuse)
	initWarn    []string
	shared      map[*Backing]bool
}

type knownPred struct {
	id string
	p  *Term
}

func NewEngine(prog *ssa.Program, cfg *Config, solverBin string, solverArgs []string) (*Engine, error) {
	tb := NewTB()
	s, err := NewSolver(tb, solverBin, solverArgs, cfg.QueryTimeout)
	if err != nil {
		return nil, err
	}
	e := &Engine{prog: prog, tb: tb, solver: s, cfg: cfg,
		stableGlobals: map[*ssa.Global]*Backing{}, stableInit: map[*ssa.Package]bool{}}
	if rt := prog.ImportedPackage("runtime"); rt != nil {
		if t := rt.Type("errorString"); t != nil {
			e.runtimeErrT = t.Object().Type()
		}
	}
	return e, nil
}

func (e *Engine) Close() { e.solver.Close() }

func (e *Engine) inReplay() bool { return e.dpos < len(e.dec) }

func (e *Engine) unsupported(msg string) pathEnd { return pathEnd{"unsupported", msg} }

func (e *Engine) targetPanicStr(msg string) targetPanic {
	var v Value
	if e.runtimeErrT != nil {
		v = Iface{T: e.runtimeErrT, V: Str{S: msg}}
	} else {
		v = Iface{T: types.Typ[types.String], V: Str{S: msg}}
	}
	return targetPanic{v: v, msg: msg}
}

// ---- path condition -------------------------------------------------------------

func (e *Engine) addPC(c *Term) {
	if c.IsTrue() {
		return
	}
	e.solver.Assert(c)
	e.learn(c)
}

// learn records equalities implied by a path constraint so that later terms fold
// to constants without a solver call.
func (e *Engine) learn(c *Term) {
	added := false
	var rec func(c *Term, val bool)
	rec = func(c *Term, val bool) {
		if c.IsConst() {
			return
		}
		if _, ok := e.pins[c.ID]; !ok {
			e.pins[c.ID] = e.tb.Bool(val)
			added = true
		}
		switch c.Op {
		case OpNot:
			rec(c.A[0], !val)
		case OpAnd:
			if val {
				rec(c.A[0], true)
				rec(c.A[1], true)
			}
		case OpOr:
			if !val {
				rec(c.A[0], false)
				rec(c.A[1], false)
			}
		case OpEq:
			if val {
				a, b := c.A[0], c.A[1]
				if a.IsConst() {
					a, b = b, a
				}
				if b.IsConst() && !a.IsConst() {
					e.pinTerm(a, b)
					added = true
				}
			}
		}
	}
	rec(c, true)
	if added {
		e.substMemo = map[int]*Term{}
	}
}

func (e *Engine) pinTerm(a, k *Term) {
	if _, ok := e.pins[a.ID]; ok {
		return
	}
	e.pins[a.ID] = k
	// x + y == k with one side already known  =>  the other side is known
	if a.Op == OpAdd {
		e.substMemo = map[int]*Term{}
		x, y := e.subst(a.A[0]), e.subst(a.A[1])
		if y.IsConst() && !x.IsConst() {
			e.pinTerm(a.A[0], e.tb.Const(a.S.W, k.C-y.C))
			if x != a.A[0] {
				e.pinTerm(x, e.tb.Const(a.S.W, k.C-y.C))
			}
		} else if x.IsConst() && !y.IsConst() {
			e.pinTerm(a.A[1], e.tb.Const(a.S.W, k.C-x.C))
			if y != a.A[1] {
				e.pinTerm(y, e.tb.Const(a.S.W, k.C-x.C))
			}
		}
	}
	// see through extensions: zext(x) == k  =>  x == k (when it fits)
	if (a.Op == OpZExt || a.Op == OpSExt) && a.A[0].S.K == KBV {
		in := a.A[0]
		if a.Op == OpZExt && k.C <= mask(in.S.W) {
			e.pinTerm(in, e.tb.Const(in.S.W, k.C))
		}
		if a.Op == OpSExt {
			v := sext64(k.C, a.S.W)
			lo, hi := -(int64(1) << uint(in.S.W-1)), (int64(1)<<uint(in.S.W-1))-1
			if v >= lo && v <= hi {
				e.pinTerm(in, e.tb.Const(in.S.W, uint64(v)))
			}
		}
	}
}

// subst rewrites t with everything learnt on this path.
func (e *Engine) subst(t *Term) *Term {
	if t.IsConst() || len(e.pins) == 0 {
		return t
	}
	if r, ok := e.substMemo[t.ID]; ok {
		return r
	}
	var r *Term
	if k, ok := e.pins[t.ID]; ok {
		r = k
	} else if len(t.A) == 0 {
		r = t
	} else {
		args := make([]*Term, len(t.A))
		changed := false
		for i, a := range t.A {
			args[i] = e.subst(a)
			if args[i] != a {
				changed = true
			}
		}
		if !changed {
			r = t
		} else {
			r = e.rebuild(t, args)
		}
	}
	e.substMemo[t.ID] = r
	return r
}

func (e *Engine) rebuild(t *Term, a []*Term) *Term {
	tb := e.tb
	switch t.Op {
	case OpNot:
		return tb.Not(a[0])
	case OpAnd:
		return tb.And(a[0], a[1])
	case OpOr:
		return tb.Or(a[0], a[1])
	case OpIte:
		return tb.Ite(a[0], a[1], a[2])
	case OpEq:
		return tb.Eq(a[0], a[1])
	case OpUlt, OpUle, OpSlt, OpSle:
		return tb.Cmp(t.Op, a[0], a[1])
	case OpNeg:
		return tb.Neg(a[0])
	case OpBNot:
		return tb.BNot(a[0])
	case OpExtract:
		return tb.Extract(a[0], t.Hi, t.Lo)
	case OpZExt:
		return tb.ZExt(a[0], t.S.W)
	case OpSExt:
		return tb.SExt(a[0], t.S.W)
	case OpConcat:
		return tb.Concat(a[0], a[1])
	case OpUF:
		return tb.UF(t.Name, t.S, a...)
	}
	return tb.Bin(t.Op, a[0], a[1])
}

func (e *Engine) evalBool(c *Term) bool {
	return e.tb.Eval(c, e.model, map[int]uint64{}) == 1
}

func (e *Engine) evalTerm(t *Term, m Model) uint64 {
	return e.tb.Eval(t, m, map[int]uint64{})
}

func (e *Engine) refreshModel() {
	if !e.modelStale {
		return
	}
	res, m := e.solver.Check(nil, e.vars)
	switch res {
	case "sat":
		e.model = m
		e.modelStale = false
	case "unsat":
		panic(pathEnd{"infeasible", "pc unsat on refresh"})
	default:
		panic(pathEnd{"unknown", "solver unknown on model refresh"})
	}
}

func (e *Engine) pushTaken(d uint64) { e.taken = append(e.taken, d) }

var DebugForks = os.Getenv("GOSYM_DEBUG_FORKS") != ""

func (e *Engine) emitAlt(d uint64, m Model) {
	if DebugForks {
		fmt.Printf("FORK at %s (depth %d)\n", e.lastFn, len(e.taken))
	}
	alt := make([]uint64, len(e.taken)+1)
	copy(alt, e.taken)
	alt[len(e.taken)] = d
	e.emit(WorkItem{Dec: alt, Model: m})
}

// Branch decides which way this path goes on symbolic condition c, queuing the
// other side if it is feasible.
func (e *Engine) Branch(c *Term) bool {
	if c.IsConst() {
		return c.C == 1
	}
	if !e.inReplay() {
		c = e.subst(c)
		if c.IsConst() {
			e.pushTaken(c.C)
			return c.C == 1
		}
	}
	if e.inReplay() {
		d := e.dec[e.dpos]
		e.dpos++
		e.pushTaken(d)
		if d == 1 {
			e.addPC(c)
		} else {
			e.addPC(e.tb.Not(c))
		}
		return d == 1
	}
	e.refreshModel()
	side := e.evalBool(c)
	other := c
	if side {
		other = e.tb.Not(c)
	}
	res, m := e.solver.Check([]*Term{other}, e.vars)
	switch res {
	case "sat":
		var od uint64
		if !side {
			od = 1
		}
		e.emitAlt(od, m)
	case "unsat":
	default:
		e.event(Event{Kind: "inconclusive", Label: "branch", Msg: "solver unknown on branch feasibility; side not explored"})
	}
	if side {
		e.pushTaken(1)
		e.addPC(c)
	} else {
		e.pushTaken(0)
		e.addPC(e.tb.Not(c))
	}
	return side
}

// Concretize case-splits term t over its feasible values.
func (e *Engine) Concretize(t *Term, what string) uint64 {
	if t.IsConst() {
		return t.C
	}
	if e.inReplay() {
		d := e.dec[e.dpos]
		e.dpos++
		e.pushTaken(d)
		e.addPC(e.tb.Eq(t, e.constLike(t, d)))
		return d
	}
	if st := e.subst(t); st.IsConst() {
		e.pushTaken(st.C)
		return st.C
	}
	e.refreshModel()
	first := e.evalTerm(t, e.model)
	seen := []uint64{first}
	excl := []*Term{e.tb.Not(e.tb.Eq(t, e.constLike(t, first)))}
	max := e.cfg.ConcretizeMax
	for {
		res, m := e.solver.Check(excl, e.vars)
		if res == "unsat" {
			break
		}
		if res != "sat" {
			e.event(Event{Kind: "inconclusive", Label: "concretize", Msg: "solver unknown while enumerating " + what})
			break
		}
		v := e.evalTerm(t, m)
		if len(seen) >= max {
			e.event(Event{Kind: "cut", Label: "concretize", Msg: fmt.Sprintf("more than %d values for %s; remaining values not explored", max, what)})
			break
		}
		seen = append(seen, v)
		e.emitAlt(v, m)
		excl = append(excl, e.tb.Not(e.tb.Eq(t, e.constLike(t, v))))
	}
	e.pushTaken(first)
	e.addPC(e.tb.Eq(t, e.constLike(t, first)))
	return first
}

func (e *Engine) constLike(t *Term, v uint64) *Term {
	if t.S.K == KBool {
		return e.tb.Bool(v == 1)
	}
	return e.tb.Const(t.S.W, v)
}

// ChooseN is a structural n-way decision (all alternatives feasible).
func (e *Engine) ChooseN(n int) int {
	if n <= 1 {
		return 0
	}
	if e.inReplay() {
		d := e.dec[e.dpos]
		e.dpos++
		e.pushTaken(d)
		return int(d)
	}
	e.refreshModel()
	for i := 1; i < n; i++ {
		e.emitAlt(uint64(i), e.model)
	}
	e.pushTaken(0)
	return 0
}

// chooseAmong is ChooseN over an explicit list, taking preferred first.
func (e *Engine) chooseAmong(opts []int) int {
	if len(opts) == 1 {
		return opts[0]
	}
	if e.inReplay() {
		d := e.dec[e.dpos]
		e.dpos++
		e.pushTaken(d)
		return int(d)
	}
	e.refreshModel()
	for _, o := range opts[1:] {
		e.emitAlt(uint64(o), e.model)
	}
	e.pushTaken(uint64(opts[0]))
	return opts[0]
}

func (e *Engine) Assume(c *Term) {
	if c.IsTrue() {
		return
	}
	if c.IsFalse() {
		panic(pathEnd{"infeasible", "assume false"})
	}
	if e.inReplay() {
		e.addPC(c)
		return
	}
	if sc := e.subst(c); sc.IsConst() {
		if sc.IsFalse() {
			panic(pathEnd{"infeasible", "assume (folded)"})
		}
		return
	}
	e.refreshModel()
	if e.evalBool(c) {
		e.addPC(c)
		return
	}
	res, m := e.solver.Check([]*Term{c}, e.vars)
	switch res {
	case "sat":
		e.model = m
		e.addPC(c)
	case "unsat":
		panic(pathEnd{"infeasible", "assume"})
	default:
		panic(pathEnd{"unknown", "solver unknown on assume"})
	}
}

func (e *Engine) event(ev Event) { e.res.Events = append(e.res.Events, ev) }

func (e *Engine) mkTape(kind, label string, m Model, msg string) *Tape {
	t := &Tape{Property: e.cfg.Property, Harness: e.harness, Label: label, Kind: kind, Tier: e.cfg.Tier,
		Bounds: e.cfg.Bounds, Msg: msg, Solver: e.solver.Bin}
	t.Decisions = append([]uint64{}, e.taken...)
	memo := map[int]uint64{}
	for _, d := range e.draws {
		v := d.V
		if d.T != nil {
			v = e.tb.Eval(d.T, m, memo)
		}
		t.Draws = append(t.Draws, TapeDraw{Kind: d.Kind, Name: d.Name, V: v})
	}
	t.Sched = append([]int{}, e.sched...)
	t.UsesClock = e.usedClock
	t.GateOrder = append([]int{}, e.gateOrder...)
	return t
}

// Assert checks obligation c on the current path.
func (e *Engine) Assert(label string, c *Term, msg string) {
	if e.inReplay() {
		// already decided by the path that created this prefix
		if !c.IsTrue() {
			e.learn(c)
			if !e.subst(c).IsTrue() {
				e.solver.Assert(c)
			}
		}
		return
	}
	if c.IsTrue() || e.subst(c).IsTrue() {
		e.res.AssertsOK++
		return
	}
	e.refreshModel()
	var viol Model
	if !e.evalBool(c) {
		viol = e.model
	} else {
		res, m := e.solver.Check([]*Term{e.tb.Not(c)}, e.vars)
		switch res {
		case "sat":
			viol = m
		case "unsat":
			e.res.AssertsOK++
			e.learn(c) // implied by the path condition: keep pins identical to replay mode
			return
		default:
			e.event(Event{Kind: "inconclusive", Label: label, Msg: "solver unknown on assertion"})
			e.Assume(c)
			return
		}
	}
	// classify against known findings
	notc := e.tb.Not(c)
	var listed []knownPred
	for _, k := range e.known {
		if e.cfg.KnownListed[k.id] {
			listed = append(listed, k)
		}
	}
	if len(listed) == 0 {
		e.event(Event{Kind: "violation", Label: label, Msg: msg, Tape: e.mkTape("violation", label, viol, msg)})
	} else {
		anyKnown := e.tb.False
		for _, k := range listed {
			anyKnown = e.tb.Or(anyKnown, k.p)
		}
		res, m := e.solver.Check([]*Term{notc, e.tb.Not(anyKnown)}, e.vars)
		switch res {
		case "sat":
			e.event(Event{Kind: "violation", Label: label, Msg: msg, Tape: e.mkTape("violation", label, m, msg)})
		case "unsat":
		default:
			e.event(Event{Kind: "inconclusive", Label: label, Msg: "solver unknown separating known findings"})
		}
		for _, k := range listed {
			res, m := e.solver.Check([]*Term{notc, k.p}, e.vars)
			if res == "sat" {
				tp := e.mkTape("known", label, m, msg)
				tp.KnownID = k.id
				e.event(Event{Kind: "known", Label: k.id, Msg: label + ": " + msg, Tape: tp})
			}
		}
	}
	// continue on the side where the assertion holds, if any
	e.Assume(c)
}

func (e *Engine) Cover(label string) {
	if e.inReplay() {
		return
	}
	if e.covered != nil && e.covered(label) {
		return
	}
	e.refreshModel()
	e.event(Event{Kind: "cover", Label: label, Tape: e.mkTape("cover", label, e.model, "")})
}

// ---- draws ---------------------------------------------------------------------

func (e *Engine) fresh(kind string, s Sort) *Term {
	name := fmt.Sprintf("d%d_%s", e.ndraw, kind)
	e.ndraw++
	t := e.tb.Var(name, s)
	e.vars = append(e.vars, t)
	e.draws = append(e.draws, Draw{Kind: kind, Name: name, T: t})
	return t
}

// freshInternal creates a solver variable that is not part of the replay tape
// (havocked environment values).
func (e *Engine) freshInternal(kind string, s Sort) *Term {
	name := fmt.Sprintf("h%d_%s", e.ndraw, kind)
	e.ndraw++
	t := e.tb.Var(name, s)
	e.vars = append(e.vars, t)
	return t
}

func (e *Engine) recordChoice(kind string, v uint64) {
	e.draws = append(e.draws, Draw{Kind: kind, Name: fmt.Sprintf("c%d", len(e.draws)), V: v})
}

// ---- running one path -----------------------------------------------------------

func (e *Engine) RunPath(entry *ssa.Function, item WorkItem) (res *PathResult) {
	e.dec = item.Dec
	e.dpos = 0
	e.taken = e.taken[:0]
	e.model = item.Model
	if e.model == nil {
		e.model = Model{}
	}
	e.modelStale = false
	e.draws = nil
	e.vars = nil
	e.ndraw = 0
	e.steps = 0
	e.globals = map[*ssa.Global]*Backing{}
	e.pkgInit = map[*ssa.Package]bool{}
	e.known = nil
	e.allocLimit = 0
	e.nblob = 0
	e.blobs = nil
	e.tcpConns = nil
	e.sched = nil
	e.threads = nil
	e.aborting = false
	e.preempts = 0
	e.pendingEnd, e.pendingPanic = nil, nil
	e.pins = map[int]*Term{}
	e.substMemo = map[int]*Term{}
	e.sync = map[*Backing]map[int]*syncState{}
	e.now = nil
	e.ghost = map[string]Value{}
	e.anyOrder = false
	e.clockPinned = false
	e.timers = nil
	e.ngates = 0
	e.gateOrder = nil
	e.usedClock = false
	e.randInts = 0
	e.syncMaps = nil
	e.pools = nil
	e.gzWriters, e.gzReaders, e.gzSpin = nil, nil, 0
	e.shared = map[*Backing]bool{}
	e.harness = entry.Name()
	e.res = &PathResult{Funcs: map[string]bool{}}
	res = e.res

	e.solver.Push()
	defer func() {
		e.killThreads()
		e.solver.Pop()
		res.Steps = e.steps
		res.NDec = len(e.taken)
	}()

	main := &Thread{id: 0, e: e, wake: make(chan struct{}, 1), name: "main", gate: -1}
	e.threads = []*Thread{main}
	e.cur = main

	func() {
		defer func() {
			if r := recover(); r != nil {
				switch p := r.(type) {
				case pathEnd:
					res.End = p.kind
					res.Msg = p.msg
					if p.kind == "budget" && e.cfg.BudgetIsViolation && !e.inReplay() {
						e.refreshModelSafe()
						e.event(Event{Kind: "violation", Label: "nontermination", Msg: p.msg, Tape: e.mkTape("violation", "nontermination", e.model, p.msg)})
					}
					if p.kind == "deadlock" && e.cfg.DeadlockIsViolation && !e.inReplay() {
						e.refreshModelSafe()
						e.event(Event{Kind: "violation", Label: "deadlock", Msg: p.msg, Tape: e.mkTape("violation", "deadlock", e.model, p.msg)})
					}
				case targetPanic:
					res.End = "panic"
					res.Msg = p.msg
					if res.Msg == "" {
						res.Msg = e.panicString(p.v)
					}
					if !e.inReplay() {
						e.refreshModelSafe()
						e.event(Event{Kind: "panic", Label: "panic", Msg: res.Msg, Tape: e.mkTape("violation", "panic", e.model, res.Msg)})
					}
				default:
					panic(r)
				}
			}
		}()
		e.call(nil, main, entry, nil, entry.Pos())
		res.End = "done"
	}()
	return res
}

func (e *Engine) refreshModelSafe() {
	defer func() {
		if r := recover(); r != nil {
			if _, ok := r.(pathEnd); !ok {
				panic(r)
			}
		}
	}()
	e.refreshModel()
}

func (e *Engine) panicString(v Value) string {
	if i, ok := v.(Iface); ok {
		if s, ok := i.V.(Str); ok && s.IsConc() {
			return s.S
		}
		if i.T != nil {
			// error value: try Error() field conventions
			return "panic(" + i.T.String() + ")"
		}
	}
	return "panic"
}

// Stats helpers
func (e *Engine) SolverStats() (sat, unsat, unknown int, secs float64, errs []string) {
	return e.solver.NSat, e.solver.NUnsat, e.solver.NUnknown, e.solver.SolverTime.Seconds(), e.solver.Errors
}

func sortedKeys(m map[string]bool) []string {
	var r []string
	for k := range m {
		r = append(r, k)
	}
	sort.Strings(r)
	return r
}

func isRepoPkg(p *ssa.Package, mod string) bool {
	return p != nil && p.Pkg != nil && (p.Pkg.Path() == mod || strings.HasPrefix(p.Pkg.Path(), mod+"/"))
}
