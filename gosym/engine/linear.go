package engine

import (
	"math/big"
	"sort"
)

// Linear normal forms over 64-bit terms. Time arithmetic in the target code is
// "instant + small offsets": comparisons of such sums are hard for a bit-blasting
// solver (adder equivalence) but trivial once common summands are cancelled.
// A comparison is rewritten only when interval analysis shows that both sides,
// read as mathematical integers, stay inside the signed 64-bit range, so that the
// modular and the integer reading coincide.

type linForm struct {
	c    *big.Int
	coef map[*Term]*big.Int
}

func newLin() *linForm { return &linForm{c: new(big.Int), coef: map[*Term]*big.Int{}} }

func (l *linForm) addAtom(t *Term, k *big.Int) {
	if v, ok := l.coef[t]; ok {
		v.Add(v, k)
		if v.Sign() == 0 {
			delete(l.coef, t)
		}
		return
	}
	if k.Sign() != 0 {
		l.coef[t] = new(big.Int).Set(k)
	}
}

func (l *linForm) addScaled(o *linForm, k *big.Int) {
	l.c.Add(l.c, new(big.Int).Mul(o.c, k))
	for t, v := range o.coef {
		l.addAtom(t, new(big.Int).Mul(v, k))
	}
}

var bigOne = big.NewInt(1)
var bigMinusOne = big.NewInt(-1)

func (tb *TB) linearize(t *Term, depth int) *linForm {
	l := newLin()
	if t.S.K != KBV || t.S.W != 64 || depth > 40 {
		l.addAtom(t, bigOne)
		return l
	}
	switch t.Op {
	case OpConst:
		l.c.SetInt64(int64(t.C))
	case OpAdd:
		l.addScaled(tb.linearize(t.A[0], depth+1), bigOne)
		l.addScaled(tb.linearize(t.A[1], depth+1), bigOne)
	case OpSub:
		l.addScaled(tb.linearize(t.A[0], depth+1), bigOne)
		l.addScaled(tb.linearize(t.A[1], depth+1), bigMinusOne)
	case OpNeg:
		l.addScaled(tb.linearize(t.A[0], depth+1), bigMinusOne)
	case OpMul:
		if t.A[1].IsConst() {
			k := big.NewInt(int64(t.A[1].C))
			if k.IsInt64() && k.CmpAbs(big.NewInt(1<<46)) < 0 {
				l.addScaled(tb.linearize(t.A[0], depth+1), k)
				return l
			}
		}
		l.addAtom(t, bigOne)
	default:
		l.addAtom(t, bigOne)
	}
	return l
}

// atomRange returns the mathematical range of a 64-bit atom read as a signed integer.
func (tb *TB) atomRange(t *Term) (lo, hi *big.Int, ok bool) {
	switch t.Op {
	case OpZExt:
		w := t.A[0].S.W
		if w < 63 {
			return big.NewInt(0), new(big.Int).Sub(new(big.Int).Lsh(bigOne, uint(w)), bigOne), true
		}
	case OpSExt:
		w := t.A[0].S.W
		if w < 64 {
			h := new(big.Int).Lsh(bigOne, uint(w-1))
			return new(big.Int).Neg(h), new(big.Int).Sub(h, bigOne), true
		}
	case OpIte:
		l1, h1, ok1 := tb.termRange(t.A[1])
		l2, h2, ok2 := tb.termRange(t.A[2])
		if ok1 && ok2 {
			if l2.Cmp(l1) < 0 {
				l1 = l2
			}
			if h2.Cmp(h1) > 0 {
				h1 = h2
			}
			return l1, h1, true
		}
	case OpVar:
		if r, ok := tb.VarRange[t.ID]; ok {
			return big.NewInt(r[0]), big.NewInt(r[1]), true
		}
	}
	return nil, nil, false
}

func (tb *TB) linRange(l *linForm) (lo, hi *big.Int, ok bool) {
	lo, hi = new(big.Int).Set(l.c), new(big.Int).Set(l.c)
	for t, k := range l.coef {
		alo, ahi, ok := tb.atomRange(t)
		if !ok {
			return nil, nil, false
		}
		x, y := new(big.Int).Mul(alo, k), new(big.Int).Mul(ahi, k)
		if x.Cmp(y) > 0 {
			x, y = y, x
		}
		lo.Add(lo, x)
		hi.Add(hi, y)
	}
	return lo, hi, true
}

func (tb *TB) termRange(t *Term) (lo, hi *big.Int, ok bool) {
	if t.Op == OpConst {
		v := big.NewInt(int64(t.C))
		return v, v, true
	}
	return tb.linRange(tb.linearize(t, 0))
}

var minI64 = new(big.Int).Neg(new(big.Int).Lsh(bigOne, 63))
var maxI64 = new(big.Int).Sub(new(big.Int).Lsh(bigOne, 63), bigOne)

func inI64(lo, hi *big.Int) bool { return lo.Cmp(minI64) >= 0 && hi.Cmp(maxI64) <= 0 }

// buildSide turns the positive (sign>0) or negative part of a difference form into a term.
func (tb *TB) buildSide(l *linForm, sign int) *Term {
	var atoms []*Term
	for t := range l.coef {
		atoms = append(atoms, t)
	}
	sort.Slice(atoms, func(i, j int) bool { return atoms[i].ID < atoms[j].ID })
	var acc *Term
	add := func(x *Term) {
		if acc == nil {
			acc = x
		} else {
			acc = tb.mkRaw(OpAdd, acc, x)
		}
	}
	for _, t := range atoms {
		k := l.coef[t]
		if k.Sign() != sign {
			continue
		}
		abs := new(big.Int).Abs(k)
		x := t
		if abs.Cmp(bigOne) != 0 {
			x = tb.mkRaw(OpMul, t, tb.Const(64, abs.Uint64()))
		}
		add(x)
	}
	if l.c.Sign() == sign {
		add(tb.Const(64, new(big.Int).Abs(l.c).Uint64()))
	}
	if acc == nil {
		return tb.Const(64, 0)
	}
	return acc
}

// mkRaw builds a binary bit-vector node without further simplification.
func (tb *TB) mkRaw(op Op, a, b *Term) *Term {
	if a.IsConst() && b.IsConst() {
		v, _ := foldBin(op, 64, a.C, b.C)
		return tb.Const(64, v)
	}
	return tb.mk(&Term{Op: op, S: a.S, A: []*Term{a, b}})
}

// linCompare tries to decide or simplify a signed/unsigned comparison or equality of
// two 64-bit terms. kind: OpSlt, OpSle, OpUlt, OpUle, OpEq.
func (tb *TB) linCompare(kind Op, a, b *Term) (*Term, bool) {
	if a.S.K != KBV || a.S.W != 64 || tb.noLinear {
		return nil, false
	}
	la, lb := tb.linearize(a, 0), tb.linearize(b, 0)
	if len(la.coef)+len(lb.coef) < 2 && !(len(la.coef) == 1 && len(lb.coef) == 1) {
		// plain var-vs-const comparisons gain nothing
		if len(la.coef)+len(lb.coef) <= 1 {
			return nil, false
		}
	}
	alo, ahi, ok1 := tb.linRange(la)
	blo, bhi, ok2 := tb.linRange(lb)
	if !ok1 || !ok2 || !inI64(alo, ahi) || !inI64(blo, bhi) {
		return nil, false
	}
	if (kind == OpUlt || kind == OpUle) && (alo.Sign() < 0 || blo.Sign() < 0) {
		return nil, false
	}
	d := newLin()
	d.addScaled(la, bigOne)
	d.addScaled(lb, bigMinusOne)
	dlo, dhi, _ := tb.linRange(d)
	switch kind {
	case OpSlt, OpUlt:
		if dhi.Sign() < 0 {
			return tb.True, true
		}
		if dlo.Sign() >= 0 {
			return tb.False, true
		}
	case OpSle, OpUle:
		if dhi.Sign() <= 0 {
			return tb.True, true
		}
		if dlo.Sign() > 0 {
			return tb.False, true
		}
	case OpEq:
		if dhi.Sign() < 0 || dlo.Sign() > 0 {
			return tb.False, true
		}
		if len(d.coef) == 0 && d.c.Sign() == 0 {
			return tb.True, true
		}
	}
	// cancel common summands: positive part vs negative part of the difference
	pos, neg := tb.buildSide(d, 1), tb.buildSide(d, -1)
	plo, phi, okp := tb.termRange(pos)
	nlo, nhi, okn := tb.termRange(neg)
	if !okp || !okn || !inI64(plo, phi) || !inI64(nlo, nhi) {
		return nil, false
	}
	if pos == a && neg == b {
		return nil, false
	}
	tb.noLinear = true
	defer func() { tb.noLinear = false }()
	switch kind {
	case OpEq:
		return tb.Eq(pos, neg), true
	case OpSlt, OpUlt:
		return tb.Cmp(OpSlt, pos, neg), true
	default:
		return tb.Cmp(OpSle, pos, neg), true
	}
}
