package engine

import (
	"os"
	"sync/atomic"
	"strings"
	"fmt"
	"sync"
	"time"

	"golang.org/x/tools/go/ssa"
)

// Explorer runs all paths of one harness with a pool of workers.

type ExploreStats struct {
	Harness      string
	Paths        int
	Ends         map[string]int
	Steps        int64
	AssertsOK    int
	Sat, Unsat   int
	Unknown      int
	SolverSecs   float64
	Wall         float64
	Violations   []Event
	Knowns       []Event
	Covers       map[string]*Tape
	Inconclusive []string
	Cuts         []string
	Funcs        map[string]bool
	Exhaustive   bool
	MaxDecisions int
	SolverErrors []string
	InitWarn     []string
	UnsupportedMsgs map[string]int
	BudgetMsgs   map[string]int
	Transcripts  []string
}

type Explorer struct {
	Prog       *ssa.Program
	Cfg        *Config
	SolverBin  string
	SolverArgs []string
	Workers    int
	MaxPaths   int
	Deadline   time.Duration
	KeepTranscripts int
	StartDecisions []uint64
}

func (x *Explorer) Run(entry *ssa.Function) *ExploreStats {
	st := &ExploreStats{Harness: entry.Name(), Ends: map[string]int{}, Covers: map[string]*Tape{}, Funcs: map[string]bool{},
		UnsupportedMsgs: map[string]int{}, BudgetMsgs: map[string]int{}}
	t0 := time.Now()
	var mu sync.Mutex
	cond := sync.NewCond(&mu)
	queue := []WorkItem{{}}
	if x.StartDecisions != nil {
		queue = []WorkItem{{Dec: x.StartDecisions}}
	}
	busy := 0
	stop := false
	truncated := false
	violSeen := map[string]int{}

	var wg sync.WaitGroup
	for w := 0; w < x.Workers; w++ {
		wg.Add(1)
		go func(w int) {
			defer wg.Done()
			eng, err := NewEngine(x.Prog, x.Cfg, x.SolverBin, x.SolverArgs)
			if err != nil {
				mu.Lock()
				st.SolverErrors = append(st.SolverErrors, "cannot start solver: "+err.Error())
				mu.Unlock()
				return
			}
			defer eng.Close()
			if lf := os.Getenv("GOSYM_SESSION_LOG"); lf != "" && w == 0 {
				f, _ := os.Create(lf)
				SessionLog = f
				eng.solver.LogAll = true
			}
			eng.emit = func(it WorkItem) {
				mu.Lock()
				queue = append(queue, it)
				cond.Signal()
				mu.Unlock()
			}
			eng.covered = func(label string) bool {
				mu.Lock()
				defer mu.Unlock()
				_, ok := st.Covers[label]
				return ok
			}
			for {
				mu.Lock()
				for len(queue) == 0 && busy > 0 && !stop {
					cond.Wait()
				}
				if stop || (len(queue) == 0 && busy == 0) {
					cond.Broadcast()
					mu.Unlock()
					break
				}
				it := queue[len(queue)-1]
				queue = queue[:len(queue)-1]
				busy++
				mu.Unlock()

				if x.KeepTranscripts > 0 {
					eng.solver.Transcript = nil
					mu.Lock()
					need := len(st.Transcripts) < x.KeepTranscripts
					mu.Unlock()
					if need {
						eng.solver.Reset()
						sb := &stringsBuilder{}
						eng.solver.Transcript = &sb.Builder
					}
				}
				slowDir := os.Getenv("GOSYM_SLOW_DUMP")
				if slowDir != "" && eng.solver.Transcript == nil {
					eng.solver.Reset()
					eng.solver.Transcript = &strings.Builder{}
				}
				st0 := eng.solver.SolverTime
				res := eng.RunPath(entry, it)
				if slowDir != "" {
					if d := eng.solver.SolverTime - st0; d > 5*time.Second && atomic.AddInt32(&slowDumps, 1) < 20 {
						os.WriteFile(fmt.Sprintf("%s/slow-%d-%d.smt2", slowDir, w, time.Now().UnixNano()), []byte(eng.solver.Transcript.String()), 0o644)
					}
					eng.solver.Transcript = nil
				}
				mu.Lock()
				if eng.solver.Transcript != nil && len(st.Transcripts) < x.KeepTranscripts {
					st.Transcripts = append(st.Transcripts, eng.solver.Transcript.String())
					eng.solver.Transcript = nil
				}
				busy--
				st.Paths++
				st.Ends[res.End]++
				st.Steps += int64(res.Steps)
				st.AssertsOK += res.AssertsOK
				if res.NDec > st.MaxDecisions {
					st.MaxDecisions = res.NDec
				}
				for f := range res.Funcs {
					st.Funcs[f] = true
				}
				switch res.End {
				case "unsupported":
					st.UnsupportedMsgs[res.Msg]++
				case "budget":
					st.BudgetMsgs[res.Msg]++
				case "unknown", "engine-error":
					st.Inconclusive = append(st.Inconclusive, res.End+": "+res.Msg)
				case "deadlock":
					st.Inconclusive = append(st.Inconclusive, "deadlock: "+res.Msg)
				}
				// counterexamples are kept per assertion label AND per set of cover points the path
				// passed before failing (up to 3 each, 12 per label): when the first few are engine
				// artefacts that the native replay overrules, a genuinely different path to the same
				// assertion still gets replayed
				sig := ""
				for _, ev := range res.Events {
					if ev.Kind == "cover" {
						sig += "|" + ev.Label
					}
				}
				for _, ev := range res.Events {
					switch ev.Kind {
					case "violation", "panic":
						if violSeen[ev.Label+sig] < 3 && violSeen[ev.Label] < 12 {
							st.Violations = append(st.Violations, ev)
							if sig != "" {
								violSeen[ev.Label+sig]++
							}
						}
						violSeen[ev.Label]++
					case "known":
						if violSeen["known:"+ev.Label] < 2 {
							st.Knowns = append(st.Knowns, ev)
						}
						violSeen["known:"+ev.Label]++
					case "cover":
						if _, ok := st.Covers[ev.Label]; !ok {
							st.Covers[ev.Label] = ev.Tape
						}
					case "inconclusive":
						st.Inconclusive = append(st.Inconclusive, ev.Label+": "+ev.Msg)
					case "cut":
						st.Cuts = append(st.Cuts, ev.Label+": "+ev.Msg)
						if ev.Tape != nil && os.Getenv("GOSYM_SHOW_CUTS") != "" && len(st.Cuts) < 4 {
							fmt.Printf("CUT %s draws=%v\n", ev.Msg, ev.Tape.Draws)
						}
					}
				}
				if (x.MaxPaths > 0 && st.Paths >= x.MaxPaths) || (x.Deadline > 0 && time.Since(t0) > x.Deadline) {
					if len(queue) > 0 || busy > 0 {
						truncated = true
					}
					stop = true
				}
				cond.Broadcast()
				mu.Unlock()
			}
			mu.Lock()
			s, u, k, secs, errs := eng.SolverStats()
			st.Sat += s
			st.Unsat += u
			st.Unknown += k
			st.SolverSecs += secs
			st.SolverErrors = append(st.SolverErrors, errs...)
			st.InitWarn = append(st.InitWarn, eng.initWarn...)
			mu.Unlock()
		}(w)
	}
	wg.Wait()
	st.Wall = time.Since(t0).Seconds()
	st.Exhaustive = !truncated && len(st.Inconclusive) == 0 && st.Ends["unsupported"] == 0 && st.Ends["budget"] == 0 &&
		st.Ends["unknown"] == 0 && st.Unknown == 0 && len(st.SolverErrors) == 0
	if truncated {
		st.Inconclusive = append(st.Inconclusive, fmt.Sprintf("exploration truncated after %d paths / %.0fs", st.Paths, st.Wall))
	}
	return st
}

var slowDumps int32

type stringsBuilder struct{ Builder strings.Builder }
