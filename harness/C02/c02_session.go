package session

import (
	"strings"
	"context"
	"encoding/json"
	"errors"
	"io"
	"net"
	"sync"
	"time"

	"tunnox-core/internal/cloud/configs"
	"tunnox-core/internal/cloud/models"
	"tunnox-core/internal/cloud/stats"
	"tunnox-core/internal/core/storage/memory"
	"tunnox-core/internal/core/types"
	"tunnox-core/internal/packet"
)

// s02End: a client connection as the server sees it (see c02End in c02_pipe.go): scripted
// bytes in scripted chunks, then EOF or blocking until closed; writes recorded.
type s02End struct {
	mu       sync.Mutex
	id       string
	data     []byte
	cuts     []int
	pos, ci  int
	eof      bool
	got      []byte
	closed   chan struct{}
	isClosed bool
}

func newS02End(id string, data []byte, cuts []int, eof bool) *s02End {
	return &s02End{id: id, data: data, cuts: cuts, eof: eof, closed: make(chan struct{})}
}
func (c *s02End) GetConnectionID() string { return c.id }
func (c *s02End) Read(p []byte) (int, error) {
	c.mu.Lock()
	if c.isClosed {
		c.mu.Unlock()
		return 0, net.ErrClosed
	}
	if c.pos < len(c.data) {
		k := len(c.data) - c.pos
		if c.ci < len(c.cuts) && c.cuts[c.ci] < k {
			k = c.cuts[c.ci]
		}
		c.ci++
		if k > len(p) {
			k = len(p)
		}
		copy(p, c.data[c.pos:c.pos+k])
		c.pos += k
		c.mu.Unlock()
		return k, nil
	}
	if c.eof {
		c.mu.Unlock()
		return 0, io.EOF
	}
	c.mu.Unlock()
	<-c.closed
	return 0, net.ErrClosed
}
func (c *s02End) Write(p []byte) (int, error) {
	c.mu.Lock()
	defer c.mu.Unlock()
	if c.isClosed {
		return 0, net.ErrClosed
	}
	c.got = append(c.got, p...)
	return len(p), nil
}
func (c *s02End) Close() error {
	c.mu.Lock()
	defer c.mu.Unlock()
	if !c.isClosed {
		c.isClosed = true
		close(c.closed)
	}
	return nil
}
func (c *s02End) snapshot() ([]byte, bool) {
	c.mu.Lock()
	defer c.mu.Unlock()
	return append([]byte(nil), c.got...), c.isClosed
}
func (c *s02End) LocalAddr() net.Addr                { return verifAddr{} }
func (c *s02End) RemoteAddr() net.Addr               { return verifAddr{} }
func (c *s02End) SetDeadline(t time.Time) error      { return nil }
func (c *s02End) SetReadDeadline(t time.Time) error  { return nil }
func (c *s02End) SetWriteDeadline(t time.Time) error { return nil }

type s02Cloud struct {
	m map[string]*models.PortMapping
}

func (c s02Cloud) GetPortMapping(id string) (*models.PortMapping, error) {
	if mp, ok := c.m[id]; ok {
		return mp, nil
	}
	return nil, errors.New("mapping not found")
}
func (c s02Cloud) UpdatePortMappingStats(id string, st *stats.TrafficStats) error { return nil }
func (c s02Cloud) GetClientPortMappings(id int64) ([]*models.PortMapping, error)  { return nil, nil }
func (c s02Cloud) TouchClient(id int64)                                           {}
func (c s02Cloud) DisconnectClient(id int64) error                                { return nil }
func (c s02Cloud) DisconnectClientIfMatch(id int64, n, cn string) (bool, error)   { return false, nil }
func (c s02Cloud) EnsureClientOnline(id int64, n, cn, ip, p, v string) error      { return nil }

type s02Tunnels struct{}

func (s02Tunnels) HandleTunnelOpen(conn ControlConnectionInterface, req *packet.TunnelOpenRequest) error {
	if conn.GetClientID() == 0 {
		return errors.New("not authenticated")
	}
	return nil
}

func s02Script(n int) ([]byte, []int) {
	data := verif_Bytes(n)
	var cuts []int
	for rem := n; rem > 0; {
		k := 1
		if rem > 1 {
			k = verif_IntRange(1, rem)
		}
		cuts = append(cuts, k)
		rem -= k
	}
	return data, cuts
}

func s02Prefix(got, sent []byte) bool {
	return len(got) <= len(sent) && verif_BytesEq(got, sent[:len(got)])
}

// The same pipe through the session manager: a server-side source opens the tunnel
// (StartServerTunnel -> startSourceBridge -> runBridgeLifecycle), the target client attaches
// through the real TunnelOpen dispatch (handleExistingBridge), bytes flow through the stream's
// reader/writer forwarder, one end goes away - or the target never comes - and the server
// must forget the tunnel.
// s02SlowStore delays writes of waiting-tunnel records.
type s02SlowStore struct {
	*memory.Storage
	slow time.Duration
}

func (s *s02SlowStore) Set(k string, v interface{}, ttl time.Duration) error {
	if s.slow > 0 && strings.HasPrefix(k, "tunnox:tunnel_waiting:") {
		time.Sleep(s.slow)
	}
	return s.Storage.Set(k, v, ttl)
}

func Harness_C02_session() {
	verif_ClockSet(int64(1) << 60)
	ctx, stop := context.WithCancel(context.Background())
	sm := NewSessionManager(nil, ctx)
	defer func() { sm.Close(); stop() }()
	sm.SetNodeID("node-A")
	sm.SetAuthHandler(&vsAuth{ok: map[int64]bool{1001: true, 1002: true}})
	limit := []int64{0, 1}[verif_Choose(2)]
	sm.SetCloudControl(s02Cloud{m: map[string]*models.PortMapping{"pm1": {ID: "pm1", ListenClientID: 1001, TargetClientID: 1002,
		Status: models.MappingStatusActive, Protocol: models.ProtocolUDP, TargetHost: "127.0.0.1", TargetPort: 53,
		Config: configs.MappingConfig{BandwidthLimit: limit}}}})
	sm.SetTunnelHandler(s02Tunnels{})
	// the store that carries the routing records may be slow to write (a remote Redis)
	routingStore := &s02SlowStore{Storage: memory.New(ctx), slow: time.Duration(verif_Choose(2)) * 2 * time.Second}
	if routingStore.slow > 0 {
		verif_Cover("C02s.slow_routing_store")
	}
	routing := NewTunnelRoutingTable(routingStore, time.Minute)
	sm.SetTunnelRoutingTable(routing)

	nS, nT := verif_IntRange(0, verif_Bound("payload")), verif_IntRange(0, verif_Bound("payload"))
	dS, cS := s02Script(nS)
	dT, cT := s02Script(nT)
	// 0: the source ends after its data, 1: the target does, 2: the harness closes the source
	// after quiescence, 3: the target client never attaches, 4: the bridge is closed (source gone,
	// shutdown) while it still waits for the target, 5: the whole node shuts down (its session
	// manager is closed, its context cancelled) while the tunnel waits for the target
	ender := verif_Choose(6)

	src := newS02End("src", dS, cS, ender == 0)
	tunnelID, err := sm.StartServerTunnel("pm1", src)
	verif_Assert("C02s.setup.start", err == nil && tunnelID != "")
	verif_Quiesce()
	sm.bridgeLock.RLock()
	_, registered := sm.tunnelBridges[tunnelID]
	sm.bridgeLock.RUnlock()
	verif_Assert("C02s.registered_while_waiting", registered)
	ws, werr := routing.LookupWaitingTunnel(ctx, tunnelID)
	verif_Assert("C02s.routable_while_waiting", werr == nil && ws != nil && ws.SourceNodeID == "node-A" && ws.MappingID == "pm1")
	if ender == 4 {
		sm.bridgeLock.RLock()
		br := sm.tunnelBridges[tunnelID]
		sm.bridgeLock.RUnlock()
		br.Close()
		verif_Quiesce()
		// well within the record's lifetime: it is the lifecycle's clean-up that must remove it
		_, werr3 := routing.LookupWaitingTunnel(ctx, tunnelID)
		verif_Assert("C02s.closed_while_waiting.no_longer_routable", werr3 != nil)
		verif_Cover("C02s.closed_while_waiting")
	}
	if ender == 5 {
		sm.Close()
		verif_Quiesce()
		// another node, asking the shared store with its own live context, must not be sent to the
		// node that is gone
		other := NewTunnelRoutingTable(routingStore, time.Minute)
		_, werr4 := other.LookupWaitingTunnel(ctx, tunnelID)
		verif_Assert("C02s.node_shutdown.no_longer_routable", werr4 != nil)
		verif_Cover("C02s.node_shutdown")
	}

	dst := newS02End("dst", dT, cT, ender == 1)
	ackLen := 0
	if ender < 3 {
		_, cerr := sm.CreateConnection(dst, dst)
		verif_Assert("C02s.setup.conn", cerr == nil)
		hs, _ := json.Marshal(&packet.HandshakeRequest{ClientID: 1002, ConnectionType: "tunnel"})
		verif_Assert("C02s.setup.handshake", sm.HandlePacket(&types.StreamPacket{ConnectionID: "dst", Timestamp: time.Now(), Packet: &packet.TransferPacket{PacketType: packet.Handshake, Payload: hs}}) == nil)
		before, _ := dst.snapshot()
		op, _ := json.Marshal(&packet.TunnelOpenRequest{TunnelID: tunnelID, MappingID: "pm1"})
		sm.HandlePacket(&types.StreamPacket{ConnectionID: "dst", Timestamp: time.Now(), Packet: &packet.TransferPacket{PacketType: packet.TunnelOpen, Payload: op}})
		after, _ := dst.snapshot()
		verif_Assert("C02s.setup.acked", len(after) > len(before))
		ackLen = len(after) // handshake reply + tunnel-open ack precede the tunnel bytes
	}
	time.Sleep(time.Hour)
	verif_Quiesce()

	gotT, closedT := dst.snapshot()
	gotS, closedS := src.snapshot()
	if ender < 3 {
		verif_Assert("C02s.ack_intact", len(gotT) >= ackLen)
		gotT = gotT[ackLen:]
	}
	verif_Assert("C02s.target_got_prefix", s02Prefix(gotT, dS))
	verif_Assert("C02s.source_got_prefix", s02Prefix(gotS, dT))
	switch ender {
	case 0:
		verif_Assert("C02s.closer_data_delivered", len(gotT) == len(dS))
	case 1:
		verif_Assert("C02s.closer_data_delivered", len(gotS) == len(dT))
	case 2:
		verif_Assert("C02s.all_delivered", len(gotT) == len(dS) && len(gotS) == len(dT))
		verif_Assert("C02s.still_open", !closedT && !closedS)
		src.Close()
		time.Sleep(time.Hour)
		verif_Quiesce()
		verif_Cover("C02s.open_then_closed")
	case 3, 4, 5:
		// nobody came within the 30 s window / the bridge was closed first: the source is released
		verif_Assert("C02s.no_target.nothing_sent", len(gotT) == 0)
		verif_Cover("C02s.no_target")
	}
	_, closedT = dst.snapshot()
	_, closedS = src.snapshot()
	verif_Assert("C02s.source_closed", closedS)
	verif_Assert("C02s.target_closed", ender >= 3 || closedT)
	sm.bridgeLock.RLock()
	_, still := sm.tunnelBridges[tunnelID]
	n := len(sm.tunnelBridges)
	sm.bridgeLock.RUnlock()
	verif_Assert("C02s.tunnel_forgotten", !still && n == 0)
	_, werr2 := routing.LookupWaitingTunnel(ctx, tunnelID)
	verif_Assert("C02s.no_longer_routable", werr2 != nil)
	verif_Cover("C02s.done")
}
