package tunnel

import (
	"context"
	"errors"
	"io"
	"net"
	"sync"
	"time"

	"tunnox-core/internal/stream"
)

// c02End is one client end of the tunnel as the server sees it: a net.Conn that delivers a
// scripted byte sequence in scripted chunk sizes, then either reports EOF (the client closed)
// or stays open until the server closes it; everything the server writes is recorded.
type c02End struct {
	mu          sync.Mutex
	data        []byte // what this end sends into the tunnel
	cuts        []int  // chunk sizes of successive reads
	pos, ci     int
	eof         bool // closes after its data (Read returns EOF) instead of waiting
	eofWithData bool // ... and the EOF comes together with the last chunk
	failAt      int  // Write accepts this many bytes in total, then fails (-1: never)
	stallAt     int  // Write accepts this many bytes in total, then blocks until the connection is closed
	stalls      bool
	tmoAt       int // index of the read that returns its bytes together with a temporary timeout error (-1: none)
	tmoIdle     int // number of reads that return (0, temporary timeout) before any data
	idle        int // number of reads that return (0, nil) before any data (a polling transport with nothing to deliver)
	got         []byte
	closed      chan struct{}
	isClosed    bool
	closeN      int
	readErr     bool // the server saw a read error / EOF from this end
}

func newC02End(data []byte, cuts []int, eof bool, failAt int) *c02End {
	return &c02End{data: data, cuts: cuts, eof: eof, failAt: failAt, tmoAt: -1, closed: make(chan struct{})}
}

func (c *c02End) Read(p []byte) (int, error) {
	c.mu.Lock()
	if c.isClosed {
		c.mu.Unlock()
		return 0, net.ErrClosed
	}
	if c.idle > 0 {
		c.idle--
		c.mu.Unlock()
		return 0, nil
	}
	if c.tmoIdle > 0 {
		// a read deadline expired with nothing read: the copy loop is expected to try again
		c.tmoIdle--
		c.mu.Unlock()
		return 0, c02Timeout{}
	}
	if c.pos < len(c.data) {
		k := len(c.data) - c.pos
		if c.ci < len(c.cuts) && c.cuts[c.ci] < k {
			k = c.cuts[c.ci]
		}
		c.ci++
		if k > len(p) {
			k = len(p)
		}
		copy(p, c.data[c.pos:c.pos+k])
		c.pos += k
		if c.tmoAt >= 0 && c.ci-1 == c.tmoAt {
			// the deadline expired after some bytes had arrived: data and a temporary error together
			c.mu.Unlock()
			return k, c02Timeout{}
		}
		if c.eof && c.eofWithData && c.pos == len(c.data) {
			c.readErr = true
			c.mu.Unlock()
			return k, io.EOF
		}
		c.mu.Unlock()
		return k, nil
	}
	if c.eof {
		c.readErr = true
		c.mu.Unlock()
		return 0, io.EOF
	}
	c.mu.Unlock()
	<-c.closed
	return 0, net.ErrClosed
}

// c02Timeout is what a net.Conn returns when a read deadline expires
type c02Timeout struct{}

func (c02Timeout) Error() string   { return "i/o timeout" }
func (c02Timeout) Timeout() bool   { return true }
func (c02Timeout) Temporary() bool { return true }

var errC02Reset = errors.New("connection reset by peer")

func (c *c02End) Write(p []byte) (int, error) {
	c.mu.Lock()
	if c.stalls && !c.isClosed && len(c.got)+len(p) > c.stallAt {
		// a peer that stopped reading: the bytes that still fit are taken, then the write hangs
		// until somebody closes the connection
		n := c.stallAt - len(c.got)
		c.got = append(c.got, p[:n]...)
		c.mu.Unlock()
		<-c.closed
		return n, net.ErrClosed
	}
	defer c.mu.Unlock()
	if c.isClosed {
		return 0, net.ErrClosed
	}
	if c.failAt >= 0 && len(c.got)+len(p) > c.failAt {
		n := c.failAt - len(c.got)
		c.got = append(c.got, p[:n]...)
		return n, errC02Reset
	}
	c.got = append(c.got, p...)
	return len(p), nil
}

func (c *c02End) Close() error {
	c.mu.Lock()
	defer c.mu.Unlock()
	c.closeN++
	if !c.isClosed {
		c.isClosed = true
		close(c.closed)
	}
	return nil
}
func (c *c02End) snapshot() (got []byte, closed bool) {
	c.mu.Lock()
	defer c.mu.Unlock()
	return append([]byte(nil), c.got...), c.isClosed
}
func (c *c02End) LocalAddr() net.Addr                { return verifAddr{} }
func (c *c02End) RemoteAddr() net.Addr               { return verifAddr{} }
func (c *c02End) SetDeadline(t time.Time) error      { return nil }
func (c *c02End) SetReadDeadline(t time.Time) error  { return nil }
func (c *c02End) SetWriteDeadline(t time.Time) error { return nil }

// c02Stream presents an end through the message-stream API only (no raw reader/writer), as the
// polling transports do: the bridge then goes through its StreamDataForwarder adapter.
type c02Stream struct {
	stream.PackageStreamer
	end *c02End
}

func (s *c02Stream) GetReader() io.Reader { return nil }
func (s *c02Stream) GetWriter() io.Writer { return nil }
func (s *c02Stream) ReadExact(n int) ([]byte, error) {
	return nil, errors.New("c02: ReadExact is not used by the bridge")
}
func (s *c02Stream) ReadAvailable(max int) ([]byte, error) {
	buf := make([]byte, max)
	n, err := s.end.Read(buf)
	return buf[:n], err
}
func (s *c02Stream) WriteExact(p []byte) error {
	n, err := s.end.Write(p)
	if err == nil && n != len(p) {
		return io.ErrShortWrite
	}
	return err
}
func (s *c02Stream) Close()                  { s.end.Close() }
func (s *c02Stream) GetConnectionID() string { return "stream-end" }

type c02TunnelConn struct {
	conn   *c02End
	stream *c02Stream
}

func (t c02TunnelConn) GetConnectionID() string { return "target" }
func (t c02TunnelConn) GetClientID() int64      { return 1002 }
func (t c02TunnelConn) GetMappingID() string    { return "pm1" }
func (t c02TunnelConn) GetTunnelID() string     { return "tun-1" }
func (t c02TunnelConn) GetStream() stream.PackageStreamer {
	if t.stream != nil {
		return t.stream
	}
	return nil
}
func (t c02TunnelConn) GetNetConn() net.Conn {
	if t.stream != nil {
		return nil
	}
	return t.conn
}
func (t c02TunnelConn) Close() error   { return t.conn.Close() }
func (t c02TunnelConn) IsClosed() bool { _, c := t.conn.snapshot(); return c }

func c02Prefix(got, sent []byte) bool {
	if len(got) > len(sent) {
		return false
	}
	return verif_BytesEq(got, sent[:len(got)])
}

// c02Script draws a payload of n symbolic bytes and its chunking
func c02Script(n int) ([]byte, []int) {
	data := verif_Bytes(n)
	var cuts []int
	for rem := n; rem > 0; {
		k := 1
		if rem > 1 {
			k = verif_IntRange(1, rem)
		}
		cuts = append(cuts, k)
		rem -= k
	}
	return data, cuts
}

// Two ends attached to a real Bridge; both directions carry symbolic payloads in symbolic
// chunkings at the same time, under every bandwidth-limit class; then one end closes.
func Harness_C02_pipe() {
	verif_ClockSet(int64(1) << 60)
	ctx, stop := context.WithCancel(context.Background())
	defer stop()
	nS, nT := verif_IntRange(0, verif_Bound("payload")), verif_IntRange(0, verif_Bound("payload"))
	dS, cS := c02Script(nS)
	dT, cT := c02Script(nT)
	limit := []int64{0, 1, 1 << 20}[verif_Choose(3)]

	// who ends the tunnel: 0 the source end closes after its data, 1 the target end does,
	// 2 nobody does (the harness closes the source end later), 3 the target end's connection
	// fails while the server writes to it (peer reset after some bytes)
	ender := verif_Choose(4)
	failAt := -1
	if ender == 3 {
		failAt = verif_IntRange(0, nS)
		verif_Assume(failAt < nS)
	}
	src := newC02End(dS, cS, ender == 0, -1)
	dst := newC02End(dT, cT, ender == 1, failAt)
	if ender == 0 || ender == 1 {
		w := verif_Bool()
		src.eofWithData, dst.eofWithData = w, w
	}
	// a polling transport on the target side that has nothing to deliver for a long while
	if verif_Bool() {
		dst.idle = 150
	}
	// read deadlines firing on the source side: before any data, or together with a chunk
	if verif_Bool() {
		src.tmoIdle = 1
		if len(cS) > 0 {
			src.tmoAt = verif_IntRange(0, len(cS)-1)
		}
	}

	b := NewBridge(ctx, &BridgeConfig{TunnelID: "tun-1", MappingID: "pm1", SourceConn: src, BandwidthLimit: limit})
	// (attaching an end through the message-stream adapter is outside this check, see spec.json)
	const viaStream = false
	b.SetTargetConnection(c02TunnelConn{conn: dst})
	done := make(chan struct{})
	verif_GoGate(func() {
		b.Start()
		close(done)
	})
	// let the copy loops run as far as they can; a bandwidth limit needs (fake) time to pass
	time.Sleep(time.Hour)
	verif_Quiesce()

	gotT, closedT := dst.snapshot()
	gotS, closedS := src.snapshot()
	// safety: what an end received is a prefix of what the other end sent
	verif_Assert("C02.target_got_prefix", c02Prefix(gotT, dS))
	verif_Assert("C02.source_got_prefix", c02Prefix(gotS, dT))
	if ender == 2 {
		// nobody closed: everything sent has arrived and the tunnel is still up
		verif_Assert("C02.all_delivered_to_target", len(gotT) == len(dS))
		verif_Assert("C02.all_delivered_to_source", len(gotS) == len(dT))
		verif_Assert("C02.still_open", !closedT && !closedS)
		src.Close() // the source client goes away
		time.Sleep(time.Hour)
		verif_Quiesce()
		verif_Cover("C02.open_then_closed")
	} else {
		// the closing end's own data was all sent before it closed: it must all have arrived
		switch ender {
		case 0:
			verif_Assert("C02.closer_data_delivered", len(gotT) == len(dS))
		case 1:
			// (a transport without half-close takes the other direction down with it; what was
			// still waiting for bandwidth tokens is then not owed to anybody)
			if !viaStream || limit != 1 {
				verif_Assert("C02.closer_data_delivered", len(gotS) == len(dT))
			}
		case 3:
			verif_Assert("C02.failed_end_got_no_more", len(gotT) == failAt)
			verif_Cover("C02.write_failed")
		}
		verif_Cover("C02.end_closed")
	}
	// closure: the other end observes it and the bridge is finished
	_, closedT = dst.snapshot()
	_, closedS = src.snapshot()
	verif_Assert("C02.both_ends_closed", closedT && closedS)
	finished := false
	select {
	case <-done:
		finished = true
	default:
	}
	verif_Assert("C02.bridge_finished", finished)
	// the byte counters are flushed when the copy loops end
	gotT, _ = dst.snapshot()
	gotS, _ = src.snapshot()
	verif_Assert("C02.counters", b.GetBytesSent() == int64(len(gotT)) && b.GetBytesReceived() == int64(len(gotS)))
	verif_Cover("C02.done")
}

// The source client stops reading (its socket buffers are full) while the target still has
// data for it; then the bridge is closed - from outside, or by the source->target direction
// failing because the target went away. The shutdown must go through: the stalled write is
// released by closing the source connection. A hang is reported under the label "deadlock"
// (natively: the watchdog).
func Harness_C02_stalled_peer() {
	verif_ClockSet(int64(1) << 60)
	ctx, stop := context.WithCancel(context.Background())
	defer stop()
	nT := verif_IntRange(1, verif_Bound("payload"))
	dT, cT := c02Script(nT)
	external := verif_Bool()
	var src, dst *c02End
	if external {
		// the target keeps the tunnel open; somebody closes the bridge (shutdown, idle timeout)
		src = newC02End(nil, nil, false, -1)
		dst = newC02End(dT, cT, false, -1)
	} else {
		// the target sent its data and went away: the next byte from the source cannot be
		// written to it, which ends the source->target direction and closes the bridge
		src = newC02End(verif_Bytes(1), []int{1}, false, -1)
		dst = newC02End(dT, cT, false, 0)
	}
	src.stalls, src.stallAt = true, verif_IntRange(0, nT-1)
	b := NewBridge(ctx, &BridgeConfig{TunnelID: "tun-1", MappingID: "pm1", SourceConn: src})
	b.SetTargetConnection(c02TunnelConn{conn: dst})
	done := make(chan struct{})
	verif_GoGate(func() {
		b.Start()
		close(done)
	})
	verif_Quiesce()
	if external {
		verif_GoGate(func() { b.Close() })
		verif_Quiesce()
	}
	finished := false
	select {
	case <-done:
		finished = true
	default:
	}
	gotS, closedS := src.snapshot()
	_, closedT := dst.snapshot()
	verif_Assert("deadlock", finished && closedS && closedT)
	verif_Assert("C02.stall.prefix", c02Prefix(gotS, dT))
	verif_Cover("C02.stall.done")
}

// A target (or source) connection attached to a bridge that was closed a moment earlier - the source
// failed, the session is shutting down - while the bridge's lifecycle has not finished yet: the
// lifecycle's own closing Close releases it too. Whatever the order of attach and the first Close,
// both ends are closed once the lifecycle's Close has run; nobody is left holding an open tunnel
// connection to a tunnel the server has forgotten.
func Harness_C02_late_attach() {
	verif_ClockSet(int64(1) << 60)
	ctx, stop := context.WithCancel(context.Background())
	defer stop()
	src := newC02End(nil, nil, false, -1)
	dst := newC02End(nil, nil, false, -1)
	b := NewBridge(ctx, &BridgeConfig{TunnelID: "tun-1", MappingID: "pm1", SourceConn: src})
	order := verif_Choose(3)
	switch order {
	case 0: // attach, then close
		b.SetTargetConnection(c02TunnelConn{conn: dst})
		verif_Assert("C02.late.close", b.Close() == nil)
	case 1: // closed first, the target's tunnel-open arrives afterwards
		verif_Assert("C02.late.close", b.Close() == nil)
		b.SetTargetConnection(c02TunnelConn{conn: dst})
		verif_Cover("C02.late.attached_after_close")
	default: // both at once
		verif_Spawn(func() { b.Close() })
		verif_Spawn(func() { b.SetTargetConnection(c02TunnelConn{conn: dst}) })
		verif_Quiesce()
	}
	// the lifecycle ends (as runBridgeLifecycle's deferred Close)
	verif_Assert("C02.late.final_close", b.Close() == nil)
	verif_Quiesce()
	_, closedS := src.snapshot()
	_, closedT := dst.snapshot()
	verif_Assert("C02.late.source_closed", closedS)
	verif_Assert("C02.late.target_closed", closedT)
	verif_Cover("C02.late.done")
}
