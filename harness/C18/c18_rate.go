package security

import "time"

// Anonymous registrations from one address never exceed the configured rate and burst: for every
// sequence of requests at instants on a quarter-second grid (the grid keeps the bucket's float64
// arithmetic exact, so the answer is fixed) the limiter answers exactly as an integer token bucket
// does, and the number admitted since the start never exceeds burst + rate * elapsed.
func Harness_C18_anon_rate() {
	now := c18Base
	verif_ClockSet(now)
	rate := verif_IntRange(1, 2)
	burst := verif_IntRange(1, 3)
	cfg := &RateLimitConfig{Rate: rate, Burst: burst, TTL: time.Hour}
	r := &RateLimiter{ipBuckets: make(map[string]*TokenBucket), tunnelBuckets: make(map[string]*TokenBucket), ipConfig: cfg, tunnelConfig: cfg}
	ip := "10.0.0.9"
	q := 4 * burst // reference bucket in quarter tokens
	created := false
	quarters := 0 // quarter seconds since the first request
	admitted := 0
	n := verif_Bound("events")
	for i := 0; i < n; i++ {
		k := verif_IntRange(0, verif_Bound("gap"))
		now += int64(k) * int64(250*time.Millisecond)
		verif_ClockSet(now)
		want := 1
		if verif_Bool() {
			want = 2 // a burst request for two slots
		}
		var got bool
		if want == 1 {
			got = r.AllowIP(ip)
		} else {
			got = r.AllowIPBurst(ip, 2)
		}
		if !created {
			created = true // the bucket is created full at the first request
		} else {
			quarters += k
			q += k * rate
			if q > 4*burst {
				q = 4 * burst
			}
		}
		ref := q >= 4*want
		if ref {
			q -= 4 * want
			admitted += want
		}
		verif_Assert("C18.rate.matches_token_bucket", got == ref)
		// rate * elapsed in tokens = rate * quarters / 4
		verif_Assert("C18.rate.never_exceeds_rate_and_burst", 4*admitted <= 4*burst+rate*quarters)
		if !got {
			verif_Cover("C18.rate.refused_seen")
		}
	}
	verif_Cover("C18.rate.done")
}

// Two anonymous registrations from one address arrive at the same instant when one slot is left
// (or none): never more are admitted than slots are left, whether or not the address already has a
// bucket, and whatever the periodic bucket sweep does at the same time.
func Harness_C18_anon_rate_race() {
	now := c18Base
	verif_ClockSet(now)
	burst := 1 + verif_Choose(2)
	cfg := &RateLimitConfig{Rate: 1, Burst: burst, TTL: time.Minute}
	r := &RateLimiter{ipBuckets: make(map[string]*TokenBucket), tunnelBuckets: make(map[string]*TokenBucket), ipConfig: cfg, tunnelConfig: cfg}
	ip := "10.0.0.9"
	left := burst
	if verif_Bool() {
		// the address is known already: use up all but one slot
		for left > 1 {
			verif_Assert("C18.raterace.setup", r.AllowIP(ip))
			left--
		}
	}
	var a, b bool
	verif_Spawn(func() { a = r.AllowIP(ip) })
	verif_Spawn(func() { b = r.AllowIP(ip) })
	if verif_Bool() {
		verif_Spawn(func() { r.cleanup() })
	}
	verif_Quiesce()
	got := 0
	if a {
		got++
	}
	if b {
		got++
	}
	verif_Assert("C18.raterace.never_more_than_left", got <= left)
	verif_Assert("C18.raterace.uses_what_is_left", got == left || got == 2)
	verif_Assert("C18.raterace.then_refused", left > 2 || !r.AllowIP(ip))
	verif_Cover("C18.raterace.done")
}
