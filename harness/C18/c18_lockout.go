package security

import (
	"context"
	"time"

	"tunnox-core/internal/core/storage/memory"
)

const c18Base = int64(1) << 60

type c18World struct {
	p       *BruteForceProtector
	now     int64
	m, pb   int
	w, b    int64
	fails   []int64 // times of failures since the last success / record reset
	total   int
	banTill int64 // 0: no temporary ban recorded
	perm    bool
}

func (w *c18World) advance() {
	w.now += int64(verif_Byte())
	verif_ClockSet(w.now)
}

// expected: is the address locked out at w.now?
func (w *c18World) expectBanned() bool {
	return w.perm || (w.banTill != 0 && w.now < w.banTill)
}

// A brute-force lock-out follows the statement's ghost computation for every event
// sequence, including asynchronous unban tasks running at any later point.
func Harness_C18_bruteforce() {
	w := &c18World{now: c18Base}
	w.m = verif_IntRange(1, 3)
	w.pb = verif_IntRange(w.m, 4)
	w.w = int64(verif_Byte()) + 1
	w.b = int64(verif_Byte()) + 1
	cfg := &BruteForceConfig{MaxFailures: w.m, TimeWindow: time.Duration(w.w), BanDuration: time.Duration(w.b), PermanentBanAt: w.pb, CleanupInterval: time.Minute}
	w.p = &BruteForceProtector{config: cfg, failures: make(map[string]*FailureRecord), bannedIPs: make(map[string]*BanRecord)}
	verif_ClockSet(w.now)
	ip := "10.0.0.1"
	n := verif_Bound("events")
	for i := 0; i < n; i++ {
		w.advance()
		if w.banTill != 0 {
			verif_Assume(w.now != w.banTill)
		}
		for _, f := range w.fails {
			verif_Assume(f != w.now-w.w)
		}
		switch verif_Choose(4) {
		case 0, 1: // an authentication attempt: gate first, then the credential outcome
			banned, _ := w.p.IsBanned(ip)
			want := w.expectBanned()
			verif_Assert("C18.bf.gate", banned == want)
			if banned {
				verif_Cover("C18.bf.banned_seen")
				break // refused before any credential check
			}
			if w.banTill != 0 {
				verif_Cover("C18.bf.expired_seen")
			}
			if verif_Bool() { // wrong credentials
				got := w.p.RecordFailure(ip)
				w.fails = append(w.fails, w.now)
				w.total++
				recent := 0
				for _, f := range w.fails {
					if f > w.now-w.w {
						recent++
					}
				}
				wantBan := false
				if w.total >= w.pb {
					w.perm = true
					wantBan = true
				} else if recent >= w.m {
					w.banTill = w.now + w.b
					wantBan = true
				}
				verif_Assert("C18.bf.failure.result", got == wantBan)
			} else { // correct credentials clear the failure history
				w.p.RecordSuccess(ip)
				w.fails = nil
				w.total = 0
			}
		case 2: // query only
			banned, _ := w.p.IsBanned(ip)
			verif_Assert("C18.bf.query", banned == w.expectBanned())
		case 3: // periodic cleanup tick
			w.p.cleanup()
			// mirror the record reset: an empty window drops the failure record
			recent := 0
			for _, f := range w.fails {
				if f > w.now-w.w {
					recent++
				}
			}
			if recent == 0 {
				w.fails = nil
				w.total = 0
			}
		}
		// an asynchronous unban task may run now, later, or never
		verif_MaybeRunPending()
	}
	// final observation
	w.advance()
	if w.banTill != 0 {
		verif_Assume(w.now != w.banTill)
	}
	banned, _ := w.p.IsBanned(ip)
	verif_Assert("C18.bf.final", banned == w.expectBanned())
	verif_Cover("C18.bf.done")
}

// A blacklisted address is refused until its entry expires, whatever the async
// removal tasks do.
func Harness_C18_blacklist() {
	m := &IPManager{blacklist: make(map[string]*IPRecord), whitelist: make(map[string]*IPRecord)}
	now := c18Base
	verif_ClockSet(now)
	ip := "10.0.0.2"
	var till int64 // 0: none, -1: permanent
	listed := false
	n := verif_Bound("events")
	for i := 0; i < n; i++ {
		now += int64(verif_Byte())
		verif_ClockSet(now)
		if listed && till > 0 {
			verif_Assume(now != till)
		}
		switch verif_Choose(3) {
		case 0:
			d := int64(verif_Byte())
			err := m.AddToBlacklist(ip, time.Duration(d), "r", "h")
			verif_Assert("C18.bl.add", err == nil)
			listed = true
			if d == 0 {
				till = -1
			} else {
				till = now + d
			}
		case 1:
			ok, _ := m.IsAllowed(ip)
			want := !(listed && (till == -1 || now < till))
			verif_Assert("C18.bl.query", ok == want)
			if !ok {
				verif_Cover("C18.bl.refused_seen")
			}
		case 2:
			m.cleanup()
		}
		verif_MaybeRunPending()
	}
	verif_Cover("C18.bl.done")
}

// The periodic sweep of expired blacklist entries races a new blacklisting of one of those
// addresses: once AddToBlacklist has returned, the address is refused - the sweep must not
// take the fresh entry away with the expired one.
func Harness_C18_blacklist_sweep_race() {
	m := &IPManager{storage: memory.New(context.Background()), blacklist: make(map[string]*IPRecord), whitelist: make(map[string]*IPRecord)}
	now := c18Base
	verif_ClockSet(now)
	a, b := "10.0.0.2", "10.0.0.3"
	verif_Assert("C18.sweep.setup", m.AddToBlacklist(a, time.Duration(5), "r", "h") == nil && m.AddToBlacklist(b, time.Duration(5), "r", "h") == nil)
	now += 10 // both temporary entries have expired, nobody has looked at them yet
	verif_ClockSet(now)
	permanent := verif_Bool()
	d := time.Duration(0)
	if !permanent {
		d = time.Duration(100)
	}
	var addErr error
	verif_Spawn(func() { m.cleanup() })
	verif_Spawn(func() { addErr = m.AddToBlacklist(b, d, "again", "h") })
	verif_Quiesce()
	verif_Assert("C18.sweep.add_ok", addErr == nil)
	okB, _ := m.IsAllowed(b)
	verif_Assert("C18.sweep.readded_address_refused", !okB)
	okA, _ := m.IsAllowed(a)
	verif_Assert("C18.sweep.expired_address_allowed", okA)
	verif_Cover("C18.sweep.done")
}

// A blacklist entry outlives the process that added it: a second manager over the same store (the
// server restarted, or another node) refuses the same addresses - for an exact entry and for a
// range alike - until the entry's own expiry.
func Harness_C18_blacklist_reload() {
	now := c18Base
	verif_ClockSet(now)
	ctx, stop := context.WithCancel(context.Background())
	defer stop()
	st := memory.New(ctx)
	m1 := &IPManager{storage: st, blacklist: make(map[string]*IPRecord), whitelist: make(map[string]*IPRecord)}
	entry := []string{"10.0.0.7", "10.0.0.0/24", "10.0.0.0/8"}[verif_Choose(3)]
	d := int64(0) // permanent
	if verif_Bool() {
		d = int64(verif_Byte()) + 1
	}
	verif_Assert("C18.reload.add", m1.AddToBlacklist(entry, time.Duration(d), "r", "h") == nil)
	ok1, _ := m1.IsAllowed("10.0.0.7")
	verif_Assert("C18.reload.refused_by_adder", !ok1)
	now += int64(verif_Byte())
	verif_ClockSet(now)
	if d != 0 {
		verif_Assume(now != c18Base+d)
	}
	m2 := &IPManager{storage: st, blacklist: make(map[string]*IPRecord), whitelist: make(map[string]*IPRecord)}
	verif_Assert("C18.reload.load", m2.loadFromStorage() == nil)
	ok2, _ := m2.IsAllowed("10.0.0.7")
	live := d == 0 || now < c18Base+d
	verif_Assert("C18.reload.same_answer_after_reload", ok2 == !live)
	okOther, _ := m2.IsAllowed("11.0.0.7")
	verif_Assert("C18.reload.others_allowed", okOther)
	if live {
		verif_Cover("C18.reload.refused_after_reload")
	}
	verif_Cover("C18.reload.done")
}

// Several addresses at once: one banned for good, one banned for a while. Whatever the periodic
// clean-up finds to do for the one, the other's ban is untouched - the permanent ban survives a
// clean-up that collects somebody else's expired ban, and an unexpired temporary ban survives too.
func Harness_C18_two_addresses() {
	now := c18Base
	verif_ClockSet(now)
	cfg := &BruteForceConfig{MaxFailures: 3, TimeWindow: time.Hour, BanDuration: time.Hour, PermanentBanAt: 100, CleanupInterval: time.Minute}
	p := &BruteForceProtector{config: cfg, failures: make(map[string]*FailureRecord), bannedIPs: make(map[string]*BanRecord)}
	a, b, c := "10.0.0.1", "10.0.0.2", "10.0.0.3"
	p.BanIP(a, 0, "permanent")
	db := int64(verif_Byte()) + 1
	dc := int64(verif_Byte()) + 1
	p.BanIP(b, time.Duration(db), "temporary")
	p.BanIP(c, time.Duration(dc), "temporary")
	n := verif_IntRange(1, 2)
	for i := 0; i < n; i++ {
		now += int64(verif_Byte())
		verif_ClockSet(now)
		verif_Assume(now != c18Base+db && now != c18Base+dc)
		p.cleanup()
		verif_MaybeRunPending()
		ba, _ := p.IsBanned(a)
		verif_Assert("C18.two.permanent_ban_survives", ba)
		bb, _ := p.IsBanned(b)
		verif_Assert("C18.two.temporary_ban_b", bb == (now < c18Base+db))
		bc, _ := p.IsBanned(c)
		verif_Assert("C18.two.temporary_ban_c", bc == (now < c18Base+dc))
		if !bb && bc {
			verif_Cover("C18.two.one_expired_one_live")
		}
	}
	verif_Cover("C18.two.done")
}
