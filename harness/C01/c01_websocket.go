package adapter

import (
	"io"
	"net"
	"net/http"
	"net/http/httptest"
	"strings"
	"time"

	"github.com/gorilla/websocket"

	"tunnox-core/internal/cloud/constants"
)

// ---- a reference websocket connection (engine only; spec "stubs") -----------------------------
//
// Message-oriented: whole binary messages are queued to the peer; a message can be taken whole
// (ReadMessage) or through a message reader (NextReader) whose Read - as gorilla documents - may
// return fewer bytes than asked for while the message has more, and whose unread rest is dropped
// when the next message is opened. Natively the real gorilla connections of a loopback pair run.

type c01WS struct {
	in     [][]byte
	cur    []byte // message opened by NextReader, unread rest
	closed bool
	peer   *c01WS
}

var c01Conns [2]*websocket.Conn
var c01Models [2]*c01WS

func c01m(c *websocket.Conn) *c01WS {
	if c == c01Conns[0] {
		return c01Models[0]
	}
	return c01Models[1]
}

type c01MsgReader struct{ m *c01WS }

const c01ReadChunk = constants.WebSocketBufferSize // what one Read of a message reader delivers at most (the connection's read buffer)

func (r *c01MsgReader) Read(p []byte) (int, error) {
	if len(r.m.cur) == 0 {
		return 0, io.EOF
	}
	n := len(r.m.cur)
	if n > len(p) {
		n = len(p)
	}
	if n > c01ReadChunk {
		n = c01ReadChunk
	}
	copy(p, r.m.cur[:n])
	r.m.cur = r.m.cur[n:]
	return n, nil
}

func c01wsNextReader(c *websocket.Conn) (int, io.Reader, error) {
	m := c01m(c)
	if m.closed || len(m.in) == 0 {
		return 0, nil, &websocket.CloseError{Code: websocket.CloseNormalClosure}
	}
	m.cur = m.in[0]
	m.in = m.in[1:]
	return websocket.BinaryMessage, &c01MsgReader{m: m}, nil
}
func c01wsReadMessage(c *websocket.Conn) (int, []byte, error) {
	m := c01m(c)
	if m.closed || len(m.in) == 0 {
		return 0, nil, &websocket.CloseError{Code: websocket.CloseNormalClosure}
	}
	d := m.in[0]
	m.in = m.in[1:]
	m.cur = nil
	return websocket.BinaryMessage, d, nil
}
func c01wsWriteMessage(c *websocket.Conn, messageType int, data []byte) error {
	m := c01m(c)
	if m.closed {
		return net.ErrClosed
	}
	m.peer.in = append(m.peer.in, append([]byte(nil), data...))
	return nil
}
func c01wsWriteControl(c *websocket.Conn, messageType int, data []byte, deadline time.Time) error {
	return nil
}
func c01wsSetDeadline(c *websocket.Conn, t time.Time) error          { return nil }
func c01wsSetHandler(c *websocket.Conn, h func(appData string) error) {}
func c01wsClose(c *websocket.Conn) error                             { c01m(c).closed = true; return nil }
func c01wsAddr(c *websocket.Conn) net.Addr                           { return &net.TCPAddr{IP: net.IPv4(127, 0, 0, 1), Port: 1} }

// ---- the native pair: a real websocket connection over loopback -------------------------------
// The server is started at program initialisation, outside the replay's fake-clock bubble.

var c01ServerSide = make(chan *websocket.Conn, 4)
var c01Server = c01StartServer()

func c01StartServer() *httptest.Server {
	if verif_Symbolic() {
		return nil
	}
	up := websocket.Upgrader{ReadBufferSize: constants.WebSocketBufferSize, WriteBufferSize: constants.WebSocketBufferSize,
		CheckOrigin: func(r *http.Request) bool { return true }}
	return httptest.NewServer(http.HandlerFunc(func(w http.ResponseWriter, r *http.Request) {
		if conn, err := up.Upgrade(w, r, nil); err == nil {
			c01ServerSide <- conn
		}
	}))
}

// c01Pair returns the two raw ends (0: server side, 1: client side).
func c01Pair() (*websocket.Conn, *websocket.Conn) {
	if verif_Symbolic() {
		c01Conns = [2]*websocket.Conn{{}, {}}
		a, b := &c01WS{}, &c01WS{}
		a.peer, b.peer = b, a
		c01Models = [2]*c01WS{a, b}
		return c01Conns[0], c01Conns[1]
	}
	d := websocket.Dialer{ReadBufferSize: constants.WebSocketBufferSize, WriteBufferSize: constants.WebSocketBufferSize}
	cl, _, err := d.Dial("ws"+strings.TrimPrefix(c01Server.URL, "http"), nil)
	verif_Assert("C01.ws.setup.dial", err == nil)
	return <-c01ServerSide, cl
}

// The websocket transports are byte streams to the framing layer: whatever sequence of binary
// messages the peer sends - tiny, buffer-sized, larger than the connection's read buffer - the
// wrapper's Read delivers exactly their bytes, in order, nothing lost or repeated, for any size
// of the caller's buffer; and each Write leaves as one binary message with exactly those bytes.
// Both wrappers (server side and client side).
func Harness_C01_websocket_stream() {
	verif_ClockSet(int64(1) << 60)
	srv, cli := c01Pair()
	var rw io.ReadWriteCloser
	var peer *websocket.Conn
	if verif_Bool() {
		rw, peer = newWSServerConn(srv, "127.0.0.1:9"), cli
		verif_Cover("C01.ws.server_wrapper")
	} else {
		rw, peer = newWSClientConn(cli), srv
		verif_Cover("C01.ws.client_wrapper")
	}
	sizes := []int{1, 5, 4096, 4097, 70000, 150000}
	k := verif_IntRange(1, verif_Bound("messages"))
	var want []byte
	for i := 0; i < k; i++ {
		n := sizes[verif_Choose(len(sizes))]
		d := make([]byte, n)
		for j := range d {
			d[j] = byte(j*13 + i)
		}
		d[0], d[n-1] = verif_Byte(), verif_Byte()
		verif_Assert("C01.ws.peer_sends", peer.WriteMessage(websocket.BinaryMessage, d) == nil)
		want = append(want, d...)
		if n > constants.WebSocketBufferSize {
			verif_Cover("C01.ws.message_larger_than_read_buffer")
		}
	}
	bs := []int{1, 7, 4096, 65536, 400000}[verif_Choose(5)]
	if bs < 4096 && len(want) > 5000 {
		bs = 3000 // (byte-wise reading of large messages only costs time)
	}
	p := make([]byte, bs)
	var got []byte
	for r := 0; len(got) < len(want) && r < len(want)+10; r++ {
		n, err := rw.Read(p)
		verif_Assert("C01.ws.read_ok", err == nil)
		verif_Assert("C01.ws.read_count", n >= 0 && n <= bs)
		got = append(got, p[:n]...)
	}
	verif_Assert("C01.ws.stream_length", len(got) == len(want))
	verif_Assert("C01.ws.stream_bytes", verif_BytesEq(got, want))
	// the other direction
	out := []byte{verif_Byte(), 2, 3, verif_Byte()}
	n, err := rw.Write(out)
	verif_Assert("C01.ws.write_ok", err == nil && n == len(out))
	mt, data, rerr := peer.ReadMessage()
	verif_Assert("C01.ws.written_message", rerr == nil && mt == websocket.BinaryMessage && verif_BytesEq(data, out))
	verif_Assert("C01.ws.close", rw.Close() == nil)
	peer.Close()
	verif_Cover("C01.ws.done")
}
