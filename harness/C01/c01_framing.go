package stream

import (
	"context"

	"tunnox-core/internal/constants"
	"tunnox-core/internal/packet"
)

type c01Sent struct {
	typ  packet.Type
	body []byte
	cmd  *packet.CommandPacket
}

// Every packet the writer accepts is read back with the same base type and body, in
// order, under arbitrary read chunking, and the stream is consumed exactly.
func Harness_C01_roundtrip() {
	ctx := context.Background()
	sink := &verifSink{}
	wp := NewStreamProcessor(nil, sink, ctx)
	k := verif_Bound("packets")
	var sent []c01Sent
	for i := 0; i < k; i++ {
		t := packet.Type(verif_Byte())
		// the writer frames packets carrying the Encrypted flag like any other; this reader does
		// not decrypt (it reports an error for them) but must still consume exactly their bytes
		comp := verif_Bool()
		// the compression flag is set by the writer from useCompression; a caller-set
		// flag without compression is not a packet the writer is documented to accept
		verif_Assume(t&packet.Compressed == 0 || comp)
		pkt := &packet.TransferPacket{PacketType: t}
		s := c01Sent{typ: t}
		if t.IsJsonCommand() || t.IsCommandResp() {
			s.cmd = &packet.CommandPacket{CommandType: packet.CommandType(verif_Byte()), CommandId: "id", CommandBody: string(verif_Bytes(1))}
			pkt.CommandPacket = s.cmd
		} else {
			n := verif_IntRange(0, verif_Bound("body"))
			s.body = verif_Bytes(n)
			pkt.Payload = s.body
		}
		_, err := wp.WritePacket(pkt, comp, 0)
		verif_Assert("C01.write.ok", err == nil)
		sent = append(sent, s)
		verif_Known("C01-empty-body-misframed", !t.IsHeartbeat() && s.cmd == nil && len(s.body) == 0)
	}
	rd := &verifReader{Data: sink.Buf, Cuts: verif_Bound("cuts")}
	verif_Known("C01-short-header-read", rd.Cuts > 0)
	rp := NewStreamProcessor(rd, nil, ctx)
	total := 0
	var held []*packet.TransferPacket // what the caller received, kept while it reads on
	for _, s := range sent {
		got, n, err := rp.ReadPacket()
		held = append(held, got)
		if s.typ.IsEncrypted() && !s.typ.IsHeartbeat() {
			verif_Assert("C01.read.encrypted_rejected", err != nil)
			total += n
			verif_Cover("C01.rt.encrypted_skipped")
			continue
		}
		verif_Assert("C01.read.ok", err == nil && got != nil)
		total += n
		verif_Assert("C01.read.type", got.PacketType&0x3F == s.typ&0x3F)
		if s.typ.IsHeartbeat() {
			continue
		}
		if s.cmd != nil {
			verif_Assert("C01.read.cmd", got.CommandPacket != nil)
			verif_Assert("C01.read.cmdtype", got.CommandPacket.CommandType == s.cmd.CommandType)
			verif_Assert("C01.read.cmdbody", verif_StrEq(got.CommandPacket.CommandBody, s.cmd.CommandBody))
			verif_Cover("C01.rt.json")
		} else {
			verif_Assert("C01.read.body", verif_BytesEq(got.Payload, s.body))
		}
		if got.PacketType.IsCompressed() {
			verif_Cover("C01.rt.compressed")
		}
	}
	verif_Assert("C01.read.aligned", rd.Pos == len(rd.Data))
	verif_Assert("C01.read.count", total == len(rd.Data))
	// the packets handed out earlier are still what was sent: a later read must not write into
	// memory an earlier packet still points at
	for i, s := range sent {
		if held[i] == nil || s.cmd != nil || s.typ.IsHeartbeat() || (s.typ.IsEncrypted() && !s.typ.IsHeartbeat()) {
			continue
		}
		verif_Assert("C01.read.earlier_packets_intact", verif_BytesEq(held[i].Payload, s.body))
	}
	verif_Cover("C01.rt.done")
}

// The 32-bit length field is fully symbolic; the body read fails at once. On the
// path that allocates, the size is within MaxPacketBodySize and the request equals it.
func Harness_C01_length_field() {
	verif_AllocLimit(constants.MaxPacketBodySize + 4096)
	var hdr [5]byte
	hdr[0] = verif_Byte()
	verif_Assume(packet.Type(hdr[0])&0x3F != packet.Heartbeat)
	verif_Assume(!packet.Type(hdr[0]).IsJsonCommand() && !packet.Type(hdr[0]).IsCommandResp())
	for i := 1; i < 5; i++ {
		hdr[i] = verif_Byte()
	}
	rd := &verifReader{Data: hdr[:]}
	rp := NewStreamProcessor(rd, nil, context.Background())
	got, _, err := rp.ReadPacket()
	size := uint32(hdr[1])<<24 | uint32(hdr[2])<<16 | uint32(hdr[3])<<8 | uint32(hdr[4])
	if size > constants.MaxPacketBodySize {
		verif_Assert("C01.len.rejected", err != nil && got == nil)
		verif_Cover("C01.len.reject")
		return
	}
	if size > 0 {
		verif_Assert("C01.len.eof", err != nil)
	}
	verif_Cover("C01.len.alloc")
}

// Bodies whose length sits on a buffer-size boundary of the framing code (the 4 KiB pool
// alignment, the 32 KiB read slice, 64 KiB): first and last bytes symbolic, the rest a fixed
// pattern. Each such packet is followed by a marker packet, so a body that loses or gains a
// byte at the boundary misaligns the marker.
func Harness_C01_size_boundaries() {
	ctx := context.Background()
	sink := &verifSink{}
	wp := NewStreamProcessor(nil, sink, ctx)
	base := []int{4096, 8192, 32768, 65536}[verif_Choose(4)]
	n := base - 6 + verif_Choose(8) // base-6 .. base+1
	body := make([]byte, n)
	for i := range body {
		body[i] = byte(i*7 + 3)
	}
	body[0], body[1], body[n-2], body[n-1] = verif_Byte(), verif_Byte(), verif_Byte(), verif_Byte()
	t := packet.Type(0x22)
	// with compression the body is a low-entropy pattern: real gzip shrinks it by two orders of
	// magnitude (the engine's gzip is an invertible pair without a ratio; the native replay of
	// the per-size witnesses runs the real codec)
	comp := verif_Bool()
	_, err := wp.WritePacket(&packet.TransferPacket{PacketType: t, Payload: body}, comp, 0)
	verif_Assert("C01.size.write", err == nil)
	marker := []byte{verif_Byte(), 0xA5}
	_, err = wp.WritePacket(&packet.TransferPacket{PacketType: t, Payload: marker}, false, 0)
	verif_Assert("C01.size.write_marker", err == nil)
	if !comp {
		verif_Assert("C01.size.wire_length", len(sink.Buf) == 5+n+5+2)
	}

	rd := &verifReader{Data: sink.Buf}
	rp := NewStreamProcessor(rd, nil, ctx)
	got, _, rerr := rp.ReadPacket()
	verif_Assert("C01.size.read", rerr == nil && got != nil && len(got.Payload) == n)
	verif_Assert("C01.size.body", verif_BytesEq(got.Payload, body))
	got2, _, rerr2 := rp.ReadPacket()
	verif_Assert("C01.size.read_marker", rerr2 == nil && got2 != nil && verif_BytesEq(got2.Payload, marker))
	verif_Assert("C01.size.aligned", rd.Pos == len(rd.Data))
	if comp {
		switch base {
		case 4096:
			verif_Cover("C01.size.compressed.4k")
		case 8192:
			verif_Cover("C01.size.compressed.8k")
		case 32768:
			verif_Cover("C01.size.compressed.32k")
		case 65536:
			verif_Cover("C01.size.compressed.64k")
		}
	}
	verif_Cover("C01.size.done")
}

// Bodies above one megabyte - far below the 16 MiB limit - for every packet type that carries a
// raw payload (the type byte is symbolic): the writer accepts them, so the reader returns them and
// stays aligned for the packet that follows. First and last bytes symbolic, the rest a pattern.
func Harness_C01_large_bodies() {
	ctx := context.Background()
	sink := &verifSink{}
	wp := NewStreamProcessor(nil, sink, ctx)
	n := []int{1<<20 - 1, 1 << 20, 1<<20 + 1}[verif_Choose(3)]
	body := make([]byte, n)
	for i := range body {
		body[i] = byte(i*11 + 5)
	}
	body[0], body[n-1] = verif_Byte(), verif_Byte()
	t := packet.Type(verif_Byte())
	verif_Assume(t&(packet.Compressed|packet.Encrypted) == 0)
	verif_Assume(!t.IsHeartbeat() && !t.IsJsonCommand() && !t.IsCommandResp())
	_, err := wp.WritePacket(&packet.TransferPacket{PacketType: t, Payload: body}, false, 0)
	verif_Assert("C01.large.write", err == nil)
	marker := []byte{verif_Byte(), 0xA5}
	_, err = wp.WritePacket(&packet.TransferPacket{PacketType: packet.Type(0x22), Payload: marker}, false, 0)
	verif_Assert("C01.large.write_marker", err == nil)
	rd := &verifReader{Data: sink.Buf}
	rp := NewStreamProcessor(rd, nil, ctx)
	if t&0x3F >= 0x20 && t&0x3F <= 0x23 {
		verif_Cover("C01.large.tunnel_type")
	} else {
		verif_Cover("C01.large.control_type")
	}
	got, _, rerr := rp.ReadPacket()
	verif_Assert("C01.large.read", rerr == nil && got != nil && len(got.Payload) == n)
	verif_Assert("C01.large.body", got.Payload[0] == body[0] && got.Payload[n-1] == body[n-1] && got.Payload[n/2] == body[n/2])
	got2, _, rerr2 := rp.ReadPacket()
	verif_Assert("C01.large.read_marker", rerr2 == nil && got2 != nil && verif_BytesEq(got2.Payload, marker))
	verif_Assert("C01.large.aligned", rd.Pos == len(rd.Data))
	verif_Cover("C01.large.done")
}
