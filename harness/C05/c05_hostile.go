package stream

import (
	"bytes"
	"compress/gzip"
	"context"
	"runtime"
	"tunnox-core/internal/packet"

	"tunnox-core/internal/constants"
)

// Arbitrary bytes from an unauthenticated peer: ReadPacket yields packets or errors,
// never panics (escaped panics are violations), never spins on a finite stream
// (loop fuel + native watchdog) and never allocates beyond the packet-size bound,
// including after decompression.
func Harness_C05_decode() {
	verif_AllocLimit(constants.MaxPacketBodySize + 64*1024)
	n := verif_IntRange(0, verif_Bound("stream"))
	data := verif_Bytes(n)
	rd := &verifReader{Data: data, Cuts: verif_Bound("cuts")}
	sp := NewStreamProcessor(rd, nil, context.Background())
	for i := 0; i <= n; i++ {
		before := c05TotalAlloc()
		pkt, cnt, err := sp.ReadPacket()
		if !verif_Symbolic() {
			// native counterpart of the engine's per-allocation obligation: bytes allocated while
			// decoding one packet from at most a dozen input bytes
			verif_Assert("alloc.limit", c05TotalAlloc()-before <= uint64(2*(constants.MaxPacketBodySize+64*1024)))
		}
		if err != nil {
			verif_Cover("C05.dec.error")
			break
		}
		verif_Assert("C05.dec.nonnil", pkt != nil)
		verif_Assert("C05.dec.progress", cnt >= 1 && rd.Pos <= n)
		verif_Assert("C05.dec.payload_bound", len(pkt.Payload) <= constants.MaxPacketBodySize)
		if pkt.PacketType.IsCompressed() {
			verif_Cover("C05.dec.compressed")
		}
		verif_Cover("C05.dec.packet")
	}
	verif_Assert("C05.dec.eof_reads_bounded", rd.EOFs <= 2)
}

// A compressed packet whose body is an attacker-chosen gzip member: decompression
// must not allocate beyond the bound (decompression bomb), must terminate and must
// not panic. Under the engine the member is the model form (magic | inflated length,
// fully symbolic 32-bit); natively the harness builds a REAL gzip member that
// inflates to that many bytes (capped at 96 MiB) and measures what ReadPacket allocates.
func Harness_C05_inflate() {
	// bytes.Buffer doubles its capacity while filling: a copy bounded by the packet
	// limit may transiently allocate up to ~2x the limit. The fixed bound checked is 3x.
	limit := 3 * constants.MaxPacketBodySize
	verif_AllocLimit(limit)
	var l32 [4]byte
	for i := range l32 {
		l32[i] = verif_Byte()
	}
	body := []byte{0x1f, 0x8b, l32[0], l32[1], l32[2], l32[3]}
	// any base packet type with the compressed flag: command frames go on to parse the inflated
	// bytes as their JSON envelope, the others hand them out as payload
	tsel := verif_Choose(5)
	jsonBomb := false
	if tsel != 0 {
		// the JSON-carrying types are explored with small inflated sizes (there the inflated bytes
		// get parsed) and with one bomb of 64 MiB whose content, natively, is a valid JSON prefix -
		// a decoder that streams the inflated text instead of bounding it first is exposed
		small := l32[0] == 0 && l32[1] == 0 && l32[2] == 0 && l32[3] < 4
		bomb := l32[0] == 4 && l32[1] == 0 && l32[2] == 0 && l32[3] == 0
		verif_Assume(small || bomb)
		if bomb {
			jsonBomb = true
			verif_Cover("C05.inf.json_bomb")
		}
	}
	if !verif_Symbolic() {
		want := int(l32[0])<<24 | int(l32[1])<<16 | int(l32[2])<<8 | int(l32[3])
		if want > 96<<20 {
			want = 96 << 20
		}
		body = c05RealGzip(want)
		if jsonBomb {
			body = c05RealGzipJSON(want)
		}
	}
	typ := 0x40 | byte([]packet.Type{0x22, packet.JsonCommand, packet.CommandResp, packet.Handshake, packet.TunnelOpen}[tsel])
	hdr := []byte{typ, byte(len(body) >> 24), byte(len(body) >> 16), byte(len(body) >> 8), byte(len(body))}
	rd := &verifReader{Data: append(hdr, body...)}
	sp := NewStreamProcessor(rd, nil, context.Background())
	before := c05TotalAlloc()
	pkt, _, err := sp.ReadPacket()
	after := c05TotalAlloc()
	if !verif_Symbolic() {
		// total bytes allocated while decoding this one packet (sum over all growth steps)
		if jsonBomb {
			verif_Assert("C05.inf.json_bomb_bounded", after-before <= uint64(2*limit))
		} else {
			verif_Assert("alloc.limit", after-before <= uint64(2*limit))
		}
	}
	if err == nil {
		verif_Assert("C05.inf.nonnil", pkt != nil)
		verif_Assert("C05.inf.payload_bound", len(pkt.Payload) <= constants.MaxPacketBodySize)
		if tsel == 0 { // (whether inflated bytes parse as JSON differs between the model's arbitrary bytes and the native zeros)
			verif_Cover("C05.inf.packet")
		}
	} else if tsel == 0 {
		verif_Cover("C05.inf.error")
	}
}

func c05RealGzip(n int) []byte {
	n0 := n
	var b bytes.Buffer
	w := gzip.NewWriter(&b)
	chunk := make([]byte, 1<<20)
	for n > 0 {
		k := len(chunk)
		if n < k {
			k = n
		}
		w.Write(chunk[:k])
		n -= k
	}
	w.Close()
	if n0 == 0 {
		return b.Bytes() // a valid member that inflates to nothing
	}
	// a second, tiny member: the stream's trailing ISIZE then describes only this one,
	// so a decoder that trusts the trailer instead of bounding the output is exposed too
	w2 := gzip.NewWriter(&b)
	w2.Write([]byte{0})
	w2.Close()
	return b.Bytes()
}

// c05RealGzipJSON: a gzip member inflating to n bytes that are a well-formed JSON command
// envelope with one enormous string.
func c05RealGzipJSON(n int) []byte {
	var b bytes.Buffer
	w := gzip.NewWriter(&b)
	head, tail := []byte(`{"CommandType":10,"CommandId":"c","CommandBody":"`), []byte(`"}`)
	w.Write(head)
	chunk := bytes.Repeat([]byte{'a'}, 1<<20)
	for n -= len(head) + len(tail); n > 0; n -= len(chunk) {
		k := len(chunk)
		if n < k {
			k = n
		}
		w.Write(chunk[:k])
	}
	w.Write(tail)
	w.Close()
	return b.Bytes()
}

func c05TotalAlloc() uint64 {
	if verif_Symbolic() {
		return 0
	}
	var m runtime.MemStats
	runtime.ReadMemStats(&m)
	return m.TotalAlloc
}
