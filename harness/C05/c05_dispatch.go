package session

import (
	"context"
	"errors"
	"time"

	"tunnox-core/internal/core/types"
	"tunnox-core/internal/packet"
)

type c05Tunnels struct{}

func (c05Tunnels) HandleTunnelOpen(conn ControlConnectionInterface, req *packet.TunnelOpenRequest) error {
	return errors.New("refused")
}

// JSON texts an attacker can put where a request object is expected: every JSON value kind,
// nulls in place of objects and fields, wrong field types, malformed and truncated text.
var c05Bodies = []string{
	"", "null", " null\n", "{}", "[]", "0", "\"x\"", "true",
	"{\"client_id\":null}", "{\"client_id\":\"x\"}", "{\"client_id\":-1,\"connection_type\":null}",
	"{\"tunnel_id\":null,\"mapping_id\":[]}", "{\"tunnel_id\":\"t\",\"mapping_id\":\"m\",\"resume_token\":7}",
	"[null]", "{\"a\":", "nul", "\x00",
}

// One packet of any type byte with a hostile JSON body, on an unauthenticated or an
// authenticated connection, through the real dispatcher: the server returns (an error at most);
// it never panics.
func Harness_C05_dispatch() {
	verif_ClockSet(int64(1) << 60)
	ctx, stop := context.WithCancel(context.Background())
	sm := NewSessionManager(nil, ctx)
	defer func() { sm.Close(); stop() }()
	sm.SetAuthHandler(&vsAuth{ok: map[int64]bool{1001: true}})
	sm.SetTunnelHandler(c05Tunnels{})
	rw := &c05RW{verifConn: verifConn{In: &verifReader{}, Out: &verifSink{}}}
	_, err := sm.CreateConnection(rw, rw)
	verif_Assert("C05.disp.setup", err == nil)
	if verif_Bool() {
		verif_Assert("C05.disp.setup_auth", vsHandshake(sm, "h1", &packet.HandshakeRequest{ClientID: 1001, ConnectionType: "control"}) == nil)
		verif_Quiesce()
	}
	body := c05Bodies[verif_Choose(len(c05Bodies))]
	pkt := &packet.TransferPacket{PacketType: packet.Type(verif_Byte()), TunnelID: "t"}
	switch verif_Choose(3) {
	case 0:
		pkt.Payload = []byte(body)
	case 1: // as the stream layer delivers command packets: decoded envelope, hostile inner body
		pkt.CommandPacket = &packet.CommandPacket{CommandType: packet.CommandType(verif_Byte()), CommandId: "c", CommandBody: body}
	case 2: // command-typed packet without an envelope
	}
	sm.HandlePacket(&types.StreamPacket{ConnectionID: "h1", Timestamp: time.Now(), Packet: pkt})
	verif_Quiesce()
	verif_Cover("C05.disp.done")
}

type c05RW struct{ verifConn }

func (c *c05RW) GetConnectionID() string { return "h1" }
