package session

import (
	"context"
	"errors"
	"time"

	"tunnox-core/internal/core/types"
	"tunnox-core/internal/packet"
)

type c05Tunnels struct{}

func (c05Tunnels) HandleTunnelOpen(conn ControlConnectionInterface, req *packet.TunnelOpenRequest) error {
	return errors.New("refused")
}

// JSON texts an attacker can put where a request object is expected: every JSON value kind,
// nulls in place of objects and fields, wrong field types, malformed and truncated text.
var c05Bodies = []string{
	"", "null", " null\n", "{}", "[]", "0", "\"x\"", "true",
	"{\"client_id\":null}", "{\"client_id\":\"x\"}", "{\"client_id\":-1,\"connection_type\":null}",
	"{\"tunnel_id\":null,\"mapping_id\":[]}", "{\"tunnel_id\":\"t\",\"mapping_id\":\"m\",\"resume_token\":7}",
	"[null]", "{\"a\":", "nul", "\x00",
}

// One packet of any type byte with a hostile JSON body, on an unauthenticated or an
// authenticated connection, through the real dispatcher: the server returns (an error at most);
// it never panics.
func Harness_C05_dispatch() {
	verif_ClockSet(int64(1) << 60)
	ctx, stop := context.WithCancel(context.Background())
	sm := NewSessionManager(nil, ctx)
	defer func() { sm.Close(); stop() }()
	sm.SetAuthHandler(&vsAuth{ok: map[int64]bool{1001: true}})
	sm.SetTunnelHandler(c05Tunnels{})
	rw := &c05RW{verifConn: verifConn{In: &verifReader{}, Out: &verifSink{}}}
	_, err := sm.CreateConnection(rw, rw)
	verif_Assert("C05.disp.setup", err == nil)
	if verif_Bool() {
		verif_Assert("C05.disp.setup_auth", vsHandshake(sm, "h1", &packet.HandshakeRequest{ClientID: 1001, ConnectionType: "control"}) == nil)
		verif_Quiesce()
	}
	body := c05Bodies[verif_Choose(len(c05Bodies))]
	pkt := &packet.TransferPacket{PacketType: packet.Type(verif_Byte()), TunnelID: "t"}
	switch verif_Choose(3) {
	case 0:
		pkt.Payload = []byte(body)
	case 1: // as the stream layer delivers command packets: decoded envelope, hostile inner body
		pkt.CommandPacket = &packet.CommandPacket{CommandType: packet.CommandType(verif_Byte()), CommandId: "c", CommandBody: body}
	case 2: // command-typed packet without an envelope
	}
	sm.HandlePacket(&types.StreamPacket{ConnectionID: "h1", Timestamp: time.Now(), Packet: pkt})
	verif_Quiesce()
	verif_Cover("C05.disp.done")
}

type c05RW struct{ verifConn }

func (c *c05RW) GetConnectionID() string { return "h1" }

// ---- structure-aware mutations of valid command bodies ---------------------------------------

// c05Msg is one JSON-carrying command the session layer parses itself: its command type, whether
// it travels as a request or a response packet, and the fields of a valid body.
type c05Msg struct {
	ct     packet.CommandType
	resp   bool
	fields [][2]string // name, valid JSON value
	raw    packet.Type // != 0: not a command - the body is the payload of a packet of this type
}

var c05Msgs = []c05Msg{
	{raw: packet.Handshake, fields: [][2]string{{"client_id", "1001"}, {"version", `"3"`}, {"protocol", `"tcp"`}, {"connection_type", `"control"`}, {"challenge_response", `"ab"`}}},
	{raw: packet.TunnelOpen, fields: [][2]string{{"mapping_id", `"m"`}, {"tunnel_id", `"t"`}, {"secret_key", `"k"`}, {"resume_token", `"r"`}, {"target_host", `"h"`}, {"target_port", "80"}, {"target_network", `"tcp"`}}},
	{ct: packet.HTTPProxyResponse, resp: true, fields: [][2]string{{"request_id", `"c"`}, {"status_code", "200"}, {"headers", `{"Content-Type":"text/plain"}`}, {"body", `"aGVsbG8="`}, {"error", `""`}}},
	{ct: packet.SOCKS5TunnelRequestCmd, resp: false, fields: [][2]string{{"tunnel_id", `"t"`}, {"mapping_id", `"m"`}, {"target_client_id", "1001"}, {"target_host", `"h"`}, {"target_port", "80"}, {"protocol", `"tcp"`}}},
	{ct: packet.DNSResolve, resp: false, fields: [][2]string{{"domain", `"a.b"`}, {"qtype", "1"}, {"target_client_id", "1001"}}},
	{ct: packet.DNSResolve, resp: true, fields: [][2]string{{"success", "true"}, {"ips", `["1.2.3.4"]`}, {"ttl", "60"}, {"error", `""`}}},
	{ct: packet.DNSQuery, resp: false, fields: [][2]string{{"query_id", `"q"`}, {"target_client_id", "1001"}, {"dns_server", `"1.1.1.1:53"`}, {"raw_query", `"AAE="`}}},
	{ct: packet.DNSQuery, resp: true, fields: [][2]string{{"query_id", `"q"`}, {"success", "true"}, {"raw_answer", `"AAE="`}, {"error", `""`}}},
	{ct: packet.TunnelTrafficReport, resp: false, fields: [][2]string{{"mapping_id", `"m"`}, {"bytes_sent", "1"}, {"bytes_received", "2"}, {"connections", "1"}, {"timestamp", "5"}}},
}

// A valid body of each of these commands with every field independently kept, dropped, set to
// null or given a value of another JSON kind, on an unauthenticated or an authenticated
// connection: the dispatcher returns (an error at most), it never panics.
func Harness_C05_command_bodies() {
	verif_ClockSet(int64(1) << 60)
	ctx, stop := context.WithCancel(context.Background())
	sm := NewSessionManager(nil, ctx)
	defer func() { sm.Close(); stop() }()
	sm.SetAuthHandler(&vsAuth{ok: map[int64]bool{1001: true}})
	sm.SetTunnelHandler(c05Tunnels{})
	rw := &c05RW{verifConn: verifConn{In: &verifReader{}, Out: &verifSink{}}}
	_, err := sm.CreateConnection(rw, rw)
	verif_Assert("C05.body.setup", err == nil)
	if verif_Bool() {
		verif_Assert("C05.body.setup_auth", vsHandshake(sm, "h1", &packet.HandshakeRequest{ClientID: 1001, ConnectionType: "control"}) == nil)
		verif_Quiesce()
	}
	m := c05Msgs[verif_Choose(len(c05Msgs))]
	body := "{"
	first := true
	for _, f := range m.fields {
		val := f[1]
		switch verif_Choose(4) {
		case 1:
			continue // field absent
		case 2:
			val = "null"
		case 3: // another JSON kind than the valid one
			if val[0] == '"' {
				val = "7"
			} else {
				val = `"x"`
			}
		}
		if !first {
			body += ","
		}
		first = false
		body += `"` + f[0] + `":` + val
	}
	body += "}"
	pt := packet.JsonCommand
	if m.resp {
		pt = packet.CommandResp
	}
	if m.raw != 0 {
		sm.HandlePacket(&types.StreamPacket{ConnectionID: "h1", Timestamp: time.Now(), Packet: &packet.TransferPacket{PacketType: m.raw, Payload: []byte(body)}})
	} else {
		sm.HandlePacket(&types.StreamPacket{ConnectionID: "h1", Timestamp: time.Now(), Packet: &packet.TransferPacket{PacketType: pt,
			CommandPacket: &packet.CommandPacket{CommandType: m.ct, CommandId: "c", CommandBody: body}}})
	}
	verif_Quiesce()
	verif_Cover("C05.body.done")
}

// A valid body of each of these messages with ONE field given another value of its own kind - a
// string no enumeration knows (different case, padded, empty), an extreme or negative number -
// and every other field valid: the dispatcher returns, it never panics.
func Harness_C05_field_values() {
	verif_ClockSet(int64(1) << 60)
	ctx, stop := context.WithCancel(context.Background())
	sm := NewSessionManager(nil, ctx)
	defer func() { sm.Close(); stop() }()
	sm.SetAuthHandler(&vsAuth{ok: map[int64]bool{1001: true}})
	sm.SetTunnelHandler(c05Tunnels{})
	rw := &c05RW{verifConn: verifConn{In: &verifReader{}, Out: &verifSink{}}}
	_, err := sm.CreateConnection(rw, rw)
	verif_Assert("C05.val.setup", err == nil)
	if verif_Bool() {
		verif_Assert("C05.val.setup_auth", vsHandshake(sm, "h1", &packet.HandshakeRequest{ClientID: 1001, ConnectionType: "control"}) == nil)
		verif_Quiesce()
	}
	m := c05Msgs[verif_Choose(len(c05Msgs))]
	victim := verif_Choose(len(m.fields))
	body := "{"
	for i, f := range m.fields {
		val := f[1]
		if i == victim {
			switch val[0] {
			case '"':
				val = []string{`"Zz"`, `""`, `"CONTROL"`, `" control"`, `"tunnel "`}[verif_Choose(5)]
			case '{', '[', 't', 'f':
				val = []string{"{}", "[]", "false"}[verif_Choose(3)]
			default:
				val = []string{"-1", "0", "9223372036854775807", "65536"}[verif_Choose(4)]
			}
		}
		if i > 0 {
			body += ","
		}
		body += `"` + f[0] + `":` + val
	}
	body += "}"
	pt := packet.JsonCommand
	if m.resp {
		pt = packet.CommandResp
	}
	if m.raw != 0 {
		sm.HandlePacket(&types.StreamPacket{ConnectionID: "h1", Timestamp: time.Now(), Packet: &packet.TransferPacket{PacketType: m.raw, Payload: []byte(body)}})
	} else {
		sm.HandlePacket(&types.StreamPacket{ConnectionID: "h1", Timestamp: time.Now(), Packet: &packet.TransferPacket{PacketType: pt,
			CommandPacket: &packet.CommandPacket{CommandType: m.ct, CommandId: "c", CommandBody: body}}})
	}
	verif_Quiesce()
	verif_Cover("C05.val.done")
}
