package socks5

import "net"

// ---- independent RFC 1928 reference (written from the RFC text) -----------------------

type c20Ref struct {
	ok       bool   // request accepted
	either   bool   // RFC silent: only safety is required
	cmd      byte
	atyp     byte
	addr     []byte // raw address bytes (4, 16 or the domain name)
	port     int
	consumed int
	reply    []byte // bytes the server must have written
	altReply []byte // acceptable alternative reply (when two errors apply)
}

func c20RefHandshake(s []byte) (r c20Ref) {
	if len(s) < 2 || s[0] != 5 {
		return
	}
	nm := int(s[1])
	if nm == 0 {
		r.either = true
		return
	}
	if len(s) < 2+nm {
		return
	}
	none := false
	for i := 0; i < nm; i++ {
		none = verif_Or(none, s[2+i] == 0)
	}
	if !none {
		r.reply = []byte{5, 0xFF}
		return
	}
	r.reply = []byte{5, 0}
	p := 2 + nm
	if len(s) < p+4 {
		return
	}
	ver, cmd, rsv, atyp := s[p], s[p+1], s[p+2], s[p+3]
	errReply := func(rep byte) []byte { return []byte{5, 0, 5, rep, 0, 1, 0, 0, 0, 0, 0, 0} }
	if ver != 5 {
		r.reply = errReply(1)
		return
	}
	badCmd := cmd != 1 && cmd != 3 // BIND (2) is not offered by this server
	badAtyp := atyp != 1 && atyp != 3 && atyp != 4
	if badCmd {
		r.reply = errReply(7)
		if badAtyp {
			r.altReply = errReply(8)
		}
		return
	}
	if badAtyp {
		r.reply = errReply(8)
		return
	}
	if rsv != 0 {
		r.either = true
	}
	p += 4
	var alen int
	switch atyp {
	case 1:
		alen = 4
	case 4:
		alen = 16
	case 3:
		if len(s) < p+1 {
			return
		}
		alen = int(s[p])
		p++
		if alen == 0 {
			r.either = true
		}
	}
	if len(s) < p+alen+2 {
		return
	}
	r.ok = true
	r.cmd, r.atyp = cmd, atyp
	r.addr = s[p : p+alen]
	r.port = int(s[p+alen])<<8 | int(s[p+alen+1])
	r.consumed = p + alen + 2
	return
}

func Harness_C20_handshake() {
	n := verif_IntRange(0, verif_Bound("stream"))
	s := verif_Bytes(n)
	c20Handshake(s)
}

// Same check with the method negotiation fixed to the common "05 01 00" so that
// the bound is spent on the request (reaches IPv6 and longer domain names).
func Harness_C20_request() {
	n := verif_IntRange(0, verif_Bound("req"))
	s := append([]byte{5, 1, 0}, verif_Bytes(n)...)
	c20Handshake(s)
}

func c20Handshake(s []byte) {
	in := &verifReader{Data: s, Cuts: verif_Bound("cuts")}
	out := &verifSink{}
	conn := &verifConn{In: in, Out: out}
	l := &Listener{}
	res, err := l.Handshake(conn)
	ref := c20RefHandshake(s)
	verif_Assert("C20.hs.noreadpast", in.Pos <= len(s))
	if ref.either {
		if err == nil {
			verif_Assert("C20.hs.either.consumed", in.Pos <= len(s))
		}
		verif_Cover("C20.hs.either")
		return
	}
	if ref.ok {
		verif_Assert("C20.hs.accepts", err == nil && res != nil)
		verif_Assert("C20.hs.cmd", res.Command == ref.cmd)
		verif_Assert("C20.hs.port", res.TargetPort == ref.port)
		verif_Assert("C20.hs.consumed", in.Pos == ref.consumed)
		verif_Assert("C20.hs.reply", verif_BytesEq(out.Buf, ref.reply))
		if ref.atyp == 3 {
			verif_Assert("C20.hs.domain", verif_StrEq(res.TargetHost, string(ref.addr)))
			verif_Cover("C20.hs.accept.domain")
		} else {
			verif_Assert("C20.hs.ip", verif_StrEq(res.TargetHost, net.IP(ref.addr).String()))
			if ref.atyp == 1 {
				verif_Cover("C20.hs.accept.v4")
			} else {
				verif_Cover("C20.hs.accept.v6")
			}
		}
		return
	}
	verif_Assert("C20.hs.rejects", err != nil)
	if ref.altReply != nil {
		verif_Assert("C20.hs.errreply", verif_Or(verif_BytesEq(out.Buf, ref.reply), verif_BytesEq(out.Buf, ref.altReply)))
	} else {
		verif_Assert("C20.hs.errreply", verif_BytesEq(out.Buf, ref.reply))
	}
	verif_Cover("C20.hs.reject")
}

// ---- UDP request header (RFC 1928 section 7) ----------------------------------------------

type c20UDPRef struct {
	ok      bool
	either  bool
	atyp    byte
	addr    []byte
	port    int
	payOff  int
}

func c20RefUDP(d []byte) (r c20UDPRef) {
	// RSV(2) FRAG(1) ATYP(1) DST.ADDR DST.PORT(2) DATA
	if len(d) < 4 {
		return
	}
	if d[2] != 0 {
		// RFC 1928 section 7: an implementation that does not support fragmentation MUST drop any
		// datagram whose FRAG field is other than X'00' - and this relay does not reassemble
		return
	}
	if d[0] != 0 || d[1] != 0 {
		r.either = true
	}
	p := 4
	var alen int
	switch d[3] {
	case 1:
		alen = 4
	case 4:
		alen = 16
	case 3:
		if len(d) < 5 {
			return
		}
		alen = int(d[4])
		p = 5
		if alen == 0 {
			r.either = true
		}
	default:
		return
	}
	if len(d) < p+alen+2 {
		return
	}
	r.ok = true
	r.atyp = d[3]
	r.addr = d[p : p+alen]
	r.port = int(d[p+alen])<<8 | int(d[p+alen+1])
	r.payOff = p + alen + 2
	return
}

func Harness_C20_udp() {
	c20UDPOne(&UDPRelay{}, "udp")
}

// Two datagrams through the same relay: what the second one parses to does not depend on the first
// (a relay serves many destinations; nothing remembered from one datagram may leak into the next).
func Harness_C20_udp_sequence() {
	relay := &UDPRelay{}
	n1 := verif_IntRange(0, verif_Bound("dgram"))
	relay.parseUDPHeader(verif_Bytes(n1))
	c20UDPOne(relay, "udpseq")
}

func c20UDPOne(relay *UDPRelay, tag string) {
	n := verif_IntRange(0, verif_Bound("dgram"))
	d := verif_Bytes(n)
	host, port, payload, err := relay.parseUDPHeader(d)
	ref := c20RefUDP(d)
	if ref.either {
		if err == nil {
			verif_Assert("C20."+tag+".either.payload", len(payload) <= len(d))
		}
		verif_Cover("C20."+tag+".either")
		return
	}
	if !ref.ok {
		verif_Assert("C20."+tag+".rejects", err != nil)
		verif_Cover("C20."+tag+".reject")
		return
	}
	verif_Known("C20-udp-short-domain-datagram", n < 10)
	verif_Assert("C20."+tag+".accepts", err == nil)
	verif_Assert("C20."+tag+".port", port == ref.port)
	verif_Assert("C20."+tag+".payload", verif_BytesEq(payload, d[ref.payOff:]))
	if ref.atyp == 3 {
		verif_Assert("C20."+tag+".domain", verif_StrEq(host, string(ref.addr)))
	} else {
		verif_Assert("C20."+tag+".ip", verif_StrEq(host, net.IP(ref.addr).String()))
	}
	verif_Cover("C20."+tag+".accept")
}

// parse(build(host,port,payload)) returns the same destination and payload.
func Harness_C20_udp_roundtrip() {
	relay := &UDPRelay{}
	port := int(verif_Uint16())
	pn := verif_IntRange(0, verif_Bound("payload"))
	payload := verif_Bytes(pn)
	var host string
	kind := verif_Choose(4)
	switch kind {
	case 3: // the longest legal domain names (the length octet allows 255): two symbolic letters in a fixed name
		dn := 252 + verif_Choose(4)
		b := make([]byte, dn)
		for i := range b {
			b[i] = 'a' + byte(i%26)
		}
		b[0], b[dn-1] = verif_Byte(), verif_Byte()
		verif_Assume(b[0] != '.' && b[0] != ':' && b[dn-1] != '.' && b[dn-1] != ':')
		host = string(b)
		verif_Cover("C20.rt.longdom")
	case 0:
		host = net.IP(verif_Bytes(4)).String()
	case 1:
		b := verif_Bytes(16)
		// exclude v4-mapped addresses: they legitimately re-encode as IPv4
		verif_Assume(b[10] != 0xff)
		host = net.IP(b).String()
	default:
		dn := verif_IntRange(1, verif_Bound("dom"))
		b := verif_Bytes(dn)
		for _, c := range b {
			verif_Assume(c != '.' && c != ':') // not an IP literal
		}
		host = string(b)
	}
	pkt := relay.buildUDPHeader(host, port, payload)
	h2, p2, pay2, err := relay.parseUDPHeader(pkt)
	verif_Known("C20-udp-short-domain-datagram", len(pkt) < 10)
	verif_Assert("C20.rt.parses", err == nil)
	verif_Assert("C20.rt.host", verif_StrEq(h2, host))
	verif_Assert("C20.rt.port", p2 == port)
	verif_Assert("C20.rt.payload", verif_BytesEq(pay2, payload))
	if kind == 2 {
		verif_Cover("C20.rt.dom")
	} else if kind == 0 {
		verif_Cover("C20.rt.v4")
	}
}
