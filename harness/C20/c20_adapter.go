package adapter

import (
	"fmt"
	"net"
)

// The server-side SOCKS5 adapter (method negotiation, optional user/password sub-negotiation,
// CONNECT request) against a reference written from RFC 1928/1929: for every byte string, in any
// chunking, the negotiation is parsed to the address and port the RFCs assign and consumes exactly
// those bytes, or is rejected - with the reply the RFC names where it names one.

type c20ARef struct {
	ok       bool
	either   bool
	target   string
	atyp     byte
	addr     []byte
	port     int
	consumed int
	reply    []byte // what must have been written when the outcome is a rejection
	replyOpt []byte // acceptable alternative
}

func c20AErr(rep byte) []byte { return []byte{5, rep, 0, 1, 0, 0, 0, 0, 0, 0} }

func c20ARefNegotiate(s []byte, auth bool) (r c20ARef) {
	if len(s) < 2 || s[0] != 5 {
		return
	}
	nm := int(s[1])
	if nm == 0 {
		r.either = true
		return
	}
	if len(s) < 2+nm {
		return
	}
	want := byte(0)
	if auth {
		want = 2
	}
	has := false
	for i := 0; i < nm; i++ {
		has = verif_Or(has, s[2+i] == want)
	}
	if !has {
		r.reply = []byte{5, 0xFF}
		return
	}
	r.reply = []byte{5, want}
	p := 2 + nm
	if auth {
		// RFC 1929: VER(1)=1 ULEN UNAME PLEN PASSWD -> VER STATUS
		if len(s) < p+2 || s[p] != 1 {
			return
		}
		ul := int(s[p+1])
		if len(s) < p+2+ul+1 {
			return
		}
		pl := int(s[p+2+ul])
		if len(s) < p+2+ul+1+pl {
			return
		}
		user, pass := s[p+2:p+2+ul], s[p+3+ul:p+3+ul+pl]
		good := ul == 1 && pl == 1 && user[0] == 'u' && pass[0] == 'p'
		if !good {
			r.reply = []byte{5, 2, 1, 1}
			return
		}
		r.reply = []byte{5, 2, 1, 0}
		p += 3 + ul + pl
	}
	pre := r.reply
	if len(s) < p+4 {
		return
	}
	ver, cmd, rsv, atyp := s[p], s[p+1], s[p+2], s[p+3]
	if ver != 5 {
		// the RFC names no reply for a request of another protocol version: a general-failure
		// reply or none
		r.replyOpt = append(append([]byte{}, pre...), c20AErr(1)...)
		return
	}
	if cmd != 1 { // this adapter offers CONNECT only
		r.reply = append(append([]byte{}, pre...), c20AErr(7)...)
		if atyp != 1 && atyp != 3 && atyp != 4 {
			r.replyOpt = append(append([]byte{}, pre...), c20AErr(8)...)
		}
		return
	}
	if atyp != 1 && atyp != 3 && atyp != 4 {
		r.reply = append(append([]byte{}, pre...), c20AErr(8)...)
		return
	}
	if rsv != 0 {
		r.either = true
	}
	p += 4
	alen := 4
	switch atyp {
	case 4:
		alen = 16
	case 3:
		if len(s) < p+1 {
			return
		}
		alen = int(s[p])
		p++
		if alen == 0 {
			r.either = true
		}
	}
	if len(s) < p+alen+2 {
		return
	}
	r.ok = true
	r.atyp = atyp
	r.addr = s[p : p+alen]
	r.port = int(s[p+alen])<<8 | int(s[p+alen+1])
	r.consumed = p + alen + 2
	return
}

func c20AdapterRun(s []byte, auth bool) {
	in := &verifReader{Data: s, Cuts: verif_Bound("cuts")}
	out := &verifSink{}
	conn := &verifConn{In: in, Out: out}
	a := &SocksAdapter{authEnabled: auth, credentials: map[string]string{"u": "p"}}
	err := a.handleHandshake(conn)
	target := ""
	if err == nil {
		target, err = a.handleRequest(conn)
	}
	ref := c20ARefNegotiate(s, auth)
	verif_Assert("C20.ad.noreadpast", in.Pos <= len(s))
	if ref.either {
		verif_Cover("C20.ad.either")
		return
	}
	if ref.ok {
		verif_Assert("C20.ad.accepts", err == nil)
		verif_Assert("C20.ad.consumed", in.Pos == ref.consumed)
		verif_Assert("C20.ad.reply_so_far", verif_BytesEq(out.Buf, ref.reply))
		host := string(ref.addr)
		if ref.atyp != 3 {
			host = net.IP(ref.addr).String()
		}
		// (cover points before the assertion: counterexamples are kept per class of path)
		switch {
		case ref.atyp == 3 && (len(ref.addr) == 4 || len(ref.addr) == 16):
			verif_Cover("C20.ad.class.domain_of_ip_length")
		case ref.atyp == 3:
			verif_Cover("C20.ad.class.domain")
		case ref.atyp == 1:
			verif_Cover("C20.ad.class.ipv4")
		default:
			verif_Cover("C20.ad.class.ipv6")
		}
		verif_Assert("C20.ad.target", verif_StrEq(target, fmt.Sprintf("%s:%d", host, ref.port)))
		if ref.atyp == 3 {
			verif_Cover("C20.ad.accept.domain")
		} else {
			verif_Cover("C20.ad.accept.ip")
		}
		return
	}
	verif_Assert("C20.ad.rejects", err != nil)
	switch {
	case ref.reply != nil && ref.replyOpt != nil:
		verif_Assert("C20.ad.errreply", verif_Or(verif_BytesEq(out.Buf, ref.reply), verif_BytesEq(out.Buf, ref.replyOpt)))
	case ref.reply != nil:
		verif_Assert("C20.ad.errreply", verif_BytesEq(out.Buf, ref.reply))
	}
	verif_Cover("C20.ad.reject")
}

func Harness_C20_adapter_noauth() {
	n := verif_IntRange(0, verif_Bound("stream"))
	c20AdapterRun(verif_Bytes(n), false)
}

// The method negotiation fixed to "05 01 00" / "05 01 02": the bound is spent on what follows.
func Harness_C20_adapter_request() {
	n := verif_IntRange(0, verif_Bound("req"))
	c20AdapterRun(append([]byte{5, 1, 0}, verif_Bytes(n)...), false)
}

func Harness_C20_adapter_password() {
	n := verif_IntRange(0, verif_Bound("req"))
	c20AdapterRun(append([]byte{5, 1, 2}, verif_Bytes(n)...), true)
}

// Greetings with many methods (NMETHODS up to the maximum of 255), the acceptable method first,
// last or in the middle, followed by a valid CONNECT request: sizes the few-byte harnesses cannot
// reach. Three method bytes and the request's address and port are symbolic.
func Harness_C20_adapter_many_methods() {
	nm := []int{1, 8, 9, 16, 17, 254, 255}[verif_Choose(7)]
	pos := []int{0, nm / 2, nm - 1}[verif_Choose(3)]
	s := []byte{5, byte(nm)}
	for i := 0; i < nm; i++ {
		s = append(s, 0x80)
	}
	s[2], s[2+nm/2], s[2+nm-1] = verif_Byte(), verif_Byte(), verif_Byte()
	verif_Assume(s[2] != 0 && s[2+nm/2] != 0 && s[2+nm-1] != 0)
	s[2+pos] = 0 // "no authentication required"
	s = append(s, 5, 1, 0, 1)
	s = append(s, verif_Bytes(4)...)
	s = append(s, verif_Bytes(2)...)
	c20AdapterRun(s, false)
}
