package client

import (
	"context"
	"fmt"
	"time"

	"tunnox-core/internal/cloud/repos"
	"tunnox-core/internal/cloud/services/base"
	"tunnox-core/internal/core/dispose"
	"tunnox-core/internal/core/storage"
	"tunnox-core/internal/core/storage/hybrid"
	"tunnox-core/internal/core/storage/memory"
)

type c08rConn struct {
	node int
	id   string
	live bool
}

// The client's runtime state in the shared store (the second record the statement names: node
// and connection of the online marker, refreshed by heartbeats, deleted only if it still matches):
// over every history of handshakes on either node, heartbeats on any live connection (also a
// superseded one) and clean-ups of connections in any order - all within the 90 s lifetime of the
// marker - any node asking where the client is gets the node and connection of the most recent
// handshake while that connection is live, and "offline" once no connection is left.
func Harness_C08_runtime_state() {
	ctx := context.Background()
	now := int64(1) << 60
	verif_ClockSet(now)
	mem := memory.New(ctx)
	sts := []storage.Storage{mem, mem}
	if verif_Bool() { // tiered: a node-local cache per node over the shared cache
		sts = []storage.Storage{
			hybrid.NewWithSharedCache(ctx, memory.New(ctx), mem, nil, hybrid.DefaultConfig()),
			hybrid.NewWithSharedCache(ctx, memory.New(ctx), mem, nil, hybrid.DefaultConfig()),
		}
		verif_Cover("C08.rt.tiered")
	}
	mk := func(st storage.Storage) *Service {
		return &Service{ServiceBase: dispose.NewService("ClientService", ctx), baseService: base.NewService(), stateRepo: repos.NewClientStateRepository(ctx, st)}
	}
	nodes := []*Service{mk(sts[0]), mk(sts[1])}
	names := []string{"node-A", "node-B"}
	const client = int64(1001)
	var conns []*c08rConn
	latest := -1
	n := verif_Bound("events")
	for i := 0; i < n; i++ {
		now += int64(verif_Choose(2)) * 15 * int64(time.Second) // 0 or 15 s: n*15 s stays inside the marker's 90 s
		verif_ClockSet(now)
		switch verif_Choose(3) {
		case 0: // successful handshake on a node, on a new connection
			nd := verif_Choose(2)
			c := &c08rConn{node: nd, id: fmt.Sprintf("c%d", len(conns)), live: true}
			verif_Assert("C08.rt.connect_ok", nodes[nd].ConnectClient(client, names[nd], c.id, "10.0.0.1", "tcp", "v1") == nil)
			conns = append(conns, c)
			latest = len(conns) - 1
		case 1: // heartbeat on any live connection
			if len(conns) == 0 {
				continue
			}
			c := conns[verif_Choose(len(conns))]
			if !c.live {
				continue
			}
			verif_Assert("C08.rt.heartbeat_ok", nodes[c.node].EnsureClientOnline(client, names[c.node], c.id, "10.0.0.1", "tcp", "v1") == nil)
			if c != conns[latest] {
				verif_Cover("C08.rt.old_connection_heartbeat")
			}
		case 2: // a connection ends (closed, or swept as stale) on its node
			if len(conns) == 0 {
				continue
			}
			c := conns[verif_Choose(len(conns))]
			if !c.live {
				continue
			}
			_, err := nodes[c.node].DisconnectClientIfMatch(client, names[c.node], c.id)
			verif_Assert("C08.rt.disconnect_ok", err == nil)
			c.live = false
		}
		anyLive := false
		for _, c := range conns {
			anyLive = anyLive || c.live
		}
		for k, svc := range nodes {
			node, err := svc.GetClientNodeID(client)
			verif_Assert("C08.rt.lookup_ok", err == nil)
			st, _ := svc.stateRepo.GetState(client)
			switch {
			case latest >= 0 && conns[latest].live:
				verif_Assert("C08.rt.node_of_latest_handshake", node == names[conns[latest].node])
				verif_Assert("C08.rt.conn_of_latest_handshake", st != nil && st.ConnID == conns[latest].id)
				verif_Cover("C08.rt.found")
			case !anyLive:
				verif_Assert("C08.rt.offline_after_last_close", node == "")
				if len(conns) > 0 && k == 1 {
					verif_Cover("C08.rt.after_close")
				}
			}
		}
	}
	verif_Cover("C08.rt.done")
}
