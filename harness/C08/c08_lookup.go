package session

import (
	"context"
	"encoding/json"
	"fmt"
	"time"

	"tunnox-core/internal/core/storage"
	"tunnox-core/internal/core/storage/hybrid"
	"tunnox-core/internal/core/storage/memory"
	"tunnox-core/internal/packet"
)

type c08JSONStore struct{ *memory.Storage }

func (s *c08JSONStore) Set(key string, value any, ttl time.Duration) error {
	if str, ok := value.(string); ok {
		return s.Storage.Set(key, str, ttl)
	}
	b, err := json.Marshal(value)
	if err != nil {
		return err
	}
	return s.Storage.Set(key, string(b), ttl)
}

type c08Conn struct {
	id     string
	node   int
	open   bool
	authed bool
}

// Whenever the client's most recent successful handshake is on an open connection that
// keeps heartbeating, FindClientNode on either node returns that node and connection;
// after its last connection is closed the lookup reports not-found.
func Harness_C08_lookup() {
	ctx := context.Background()
	now := int64(1) << 60
	verif_ClockSet(now)
	mem := memory.New(ctx)
	// backend: 0 = in-memory, 1 = Redis-like (JSON text values), 2 = tiered: every node has its
	// own hybrid.Storage (node-local cache) over one shared Redis-like cache, as in production
	backend := verif_Choose(3)
	jsonBackend := backend != 0
	sts := []storage.Storage{mem, mem}
	switch backend {
	case 1:
		sts = []storage.Storage{&c08JSONStore{mem}, &c08JSONStore{mem}}
	case 2:
		shared := &c08JSONStore{mem}
		sts = []storage.Storage{
			hybrid.NewWithSharedCache(ctx, memory.New(ctx), shared, nil, hybrid.DefaultConfig()),
			hybrid.NewWithSharedCache(ctx, memory.New(ctx), shared, nil, hybrid.DefaultConfig()),
		}
	}
	const client = int64(1001)
	auth := &vsAuth{ok: map[int64]bool{client: true}}
	nodes := []*SessionManager{vsNewNode(ctx, "node-A", sts[0], auth, nil), vsNewNode(ctx, "node-B", sts[1], auth, nil)}
	var conns []*c08Conn
	latest := -1 // index of the connection of the most recent successful handshake
	n := verif_Bound("events")
	for i := 0; i < n; i++ {
		// time passes (0..255 s, i.e. less than the 5 min record TTL between two heartbeats);
		// every open authenticated connection heartbeats first
		now += int64(verif_Byte()) * int64(time.Second)
		verif_ClockSet(now)
		for k, c := range conns {
			if c.open && c.authed {
				// the client's first connection may have gone quiet (half-dead link) once a newer one
				// exists - and may still deliver a late heartbeat at any later point
				if k == 0 && latest > 0 && !verif_Bool() {
					verif_Cover("C08.old_connection_quiet")
					continue
				}
				verif_Assert("C08.heartbeat.ok", vsHeartbeat(nodes[c.node], c.id) == nil)
			}
		}
		switch verif_Choose(3) {
		case 0: // the client connects to some node and authenticates
			elsewhere := true // every later login went to the other node (a login on the same node evicts the old connection)
			for k := 1; k < len(conns); k++ {
				if conns[k].node == conns[0].node {
					elsewhere = false
				}
			}
			if len(conns) >= 2 && latest > 0 && elsewhere && conns[0].open && conns[0].authed && verif_Bool() {
				// ... or authenticates once more over its surviving first connection (after it had
				// logged in elsewhere): that connection is its current location again
				c := conns[0]
				err := vsHandshake(nodes[c.node], c.id, &packet.HandshakeRequest{ClientID: client, ConnectionType: "control", Protocol: "tcp"})
				verif_Assert("C08.rehandshake.ok", err == nil)
				latest = 0
				verif_Cover("C08.rehandshake_on_old_connection")
				break
			}
			nd := verif_Choose(2)
			c := &c08Conn{id: fmt.Sprintf("c%d", len(conns)), node: nd, open: true}
			conns = append(conns, c)
			vsOpenConn(ctx, nodes[nd], c.id)
			err := vsHandshake(nodes[nd], c.id, &packet.HandshakeRequest{ClientID: client, ConnectionType: "control", Protocol: "tcp"})
			verif_Assert("C08.handshake.ok", err == nil)
			c.authed = true
			latest = len(conns) - 1
		case 1: // some node closes one of its connections (possibly a stale one)
			if len(conns) == 0 {
				continue
			}
			k := verif_Choose(len(conns))
			c := conns[k]
			if !c.open {
				continue
			}
			if verif_Bool() {
				nodes[c.node].CloseConnection(c.id)
			} else {
				// the client goes silent: its node's heartbeat-timeout sweep closes the connection
				now += int64(nodes[c.node].config.HeartbeatTimeout) + int64(time.Second)
				verif_ClockSet(now)
				for _, o := range conns {
					if o != c && o.open && o.authed {
						verif_Assert("C08.heartbeat.ok", vsHeartbeat(nodes[o.node], o.id) == nil)
					}
				}
				nodes[c.node].cleanupStaleConnections()
				verif_Assert("C08.sweep.closed", nodes[c.node].clientRegistry.GetByConnID(c.id) == nil)
				verif_Cover("C08.swept")
			}
			c.open = false
		case 2: // lookup from either node
			asker := nodes[verif_Choose(2)]
			nodeID, connID, err := asker.connStateStore.FindClientNode(ctx, client)
			anyOpen := false
			for _, c := range conns {
				if c.open && c.authed {
					anyOpen = true
				}
			}
			if latest >= 0 && conns[latest].open {
				l := conns[latest]
				verif_Known("C08-memory-backend-info-type", !jsonBackend)
				verif_Assert("C08.lookup.found", err == nil)
				verif_Assert("C08.lookup.node", nodeID == nodes[l.node].nodeID && connID == l.id)
				verif_Cover("C08.found")
			} else if !anyOpen {
				verif_Assert("C08.lookup.notfound", err != nil)
				if len(conns) > 0 {
					verif_Cover("C08.after_close")
				}
			}
		}
	}
	verif_Cover("C08.done")
}
