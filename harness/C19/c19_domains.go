package repos

import (
	"context"
	"time"

	"tunnox-core/internal/core/storage"
	"tunnox-core/internal/core/storage/hybrid"
	"tunnox-core/internal/core/storage/memory"
)

type c19Store struct {
	*memory.Storage
}

func (s *c19Store) Set(k string, v any, ttl time.Duration) error {
	verif_Yield()
	return s.Storage.Set(k, v, ttl)
}
func (s *c19Store) Get(k string) (any, error)     { verif_Yield(); return s.Storage.Get(k) }
func (s *c19Store) Delete(k string) error         { verif_Yield(); return s.Storage.Delete(k) }
func (s *c19Store) Exists(k string) (bool, error) { verif_Yield(); return s.Storage.Exists(k) }
func (s *c19Store) SetNX(k string, v any, ttl time.Duration) (bool, error) {
	verif_Yield()
	return s.Storage.SetNX(k, v, ttl)
}
func (s *c19Store) Incr(k string) (int64, error) { verif_Yield(); return s.Storage.Incr(k) }
func (s *c19Store) AppendToList(k string, v any) error {
	verif_Yield()
	return s.Storage.AppendToList(k, v)
}
func (s *c19Store) RemoveFromList(k string, v any) error {
	verif_Yield()
	return s.Storage.RemoveFromList(k, v)
}
func (s *c19Store) GetList(k string) ([]any, error) { verif_Yield(); return s.Storage.GetList(k) }

func newC19Repo(ctx context.Context) *HTTPDomainMappingRepository {
	verif_ClockSet(int64(1) << 60)
	return NewHTTPDomainMappingRepository(NewRepository(&c19Store{memory.New(ctx)}), []string{"tunnox.net"})
}

// two repositories as two server nodes have them: on one store, or each on its own tiered store
// (node-local cache over the shared cache)
func newC19Nodes(ctx context.Context, tiered bool) (*HTTPDomainMappingRepository, *HTTPDomainMappingRepository) {
	verif_ClockSet(int64(1) << 60)
	shared := &c19Store{memory.New(ctx)}
	var s1, s2 storage.Storage = shared, shared
	if tiered {
		s1 = hybrid.NewWithSharedCache(ctx, memory.New(ctx), shared, nil, hybrid.DefaultConfig())
		s2 = hybrid.NewWithSharedCache(ctx, memory.New(ctx), shared, nil, hybrid.DefaultConfig())
	}
	return NewHTTPDomainMappingRepository(NewRepository(s1), []string{"tunnox.net"}), NewHTTPDomainMappingRepository(NewRepository(s2), []string{"tunnox.net"})
}

// reachable counts the mapping records that a lookup of the full domain, or a scan of all
// mapping ids handed out so far, finds for that domain.
func c19Owners(ctx context.Context, r *HTTPDomainMappingRepository, full string, maxID int) (owners []int64) {
	for i := 1; i <= maxID; i++ {
		id := "hdm_" + itoa(i)
		if m, err := r.GetMapping(ctx, id); err == nil && m.FullDomain == full {
			owners = append(owners, m.ClientID)
		}
	}
	return
}

func itoa(i int) string {
	if i == 0 {
		return "0"
	}
	s := ""
	for i > 0 {
		s = string(rune('0'+i%10)) + s
		i /= 10
	}
	return s
}

// Two clients claim the same name at once (a third claims another name): at most one
// wins, the lookup routes to the winner and to nobody else.
func Harness_C19_claim_race() {
	ctx := context.Background()
	// the two claims arrive at two server nodes
	tiered := verif_Bool()
	r, rB := newC19Nodes(ctx, tiered)
	if tiered {
		verif_Cover("C19.race.tiered")
	}
	var m1, m2 *HTTPDomainMapping
	var e1, e2 error
	verif_Spawn(func() { m1, e1 = r.CreateMapping(ctx, 1001, "app", "tunnox.net", "127.0.0.1", 8080) })
	verif_Spawn(func() { m2, e2 = rB.CreateMapping(ctx, 1002, "app", "tunnox.net", "127.0.0.1", 9090) })
	if verif_Bool() {
		// a request for that host arrives while the claims are in flight: it is routed to one of the
		// claimants or rejected - and looking must not change who owns the name
		verif_Spawn(func() {
			if got, err := rB.LookupByDomain(ctx, "app.tunnox.net"); err == nil {
				verif_Assert("C19.race.lookup_in_flight", got != nil && (got.ClientID == 1001 || got.ClientID == 1002))
			}
		})
		verif_Cover("C19.race.with_lookup")
	}
	verif_Quiesce()
	verif_Assert("C19.race.at_most_one", !(e1 == nil && e2 == nil))
	verif_Assert("C19.race.one_wins", e1 == nil || e2 == nil)
	got, err := r.LookupByDomain(ctx, "app.tunnox.net")
	verif_Assert("C19.race.lookup", err == nil && got != nil)
	if e1 == nil {
		verif_Assert("C19.race.routes_to_winner", got.ClientID == 1001 && got.TargetPort == 8080 && got.ID == m1.ID)
	} else {
		verif_Assert("C19.race.routes_to_winner", got.ClientID == 1002 && got.TargetPort == 9090 && got.ID == m2.ID)
	}
	verif_Assert("C19.race.single_record", len(c19Owners(ctx, r, "app.tunnox.net", 3)) == 1)
	verif_Cover("C19.race.owned")
	verif_Cover("C19.race.done")
}

// The owner deletes (possibly twice, e.g. a retried request) while another client
// claims the freed name: afterwards the name routes to the new owner or to nobody, never
// to a deleted mapping, and never is a live mapping left without its name.
func Harness_C19_delete_race() {
	ctx := context.Background()
	r := newC19Repo(ctx)
	old, err := r.CreateMapping(ctx, 1001, "app", "tunnox.net", "127.0.0.1", 8080)
	verif_Assert("C19.del.setup", err == nil)
	var m2 *HTTPDomainMapping
	var e2 error
	twice := verif_Bool()
	verif_Spawn(func() { r.DeleteMapping(ctx, old.ID, 1001) })
	if twice {
		verif_Spawn(func() { r.DeleteMapping(ctx, old.ID, 1001) })
	}
	verif_Spawn(func() { m2, e2 = r.CreateMapping(ctx, 1002, "app", "tunnox.net", "127.0.0.1", 9090) })
	verif_Quiesce()
	got, lerr := r.LookupByDomain(ctx, "app.tunnox.net")
	if lerr == nil {
		verif_Assert("C19.del.not_deleted_owner", got.ClientID != 1001)
	}
	if e2 == nil {
		verif_Assert("C19.del.new_owner_routable", lerr == nil && got.ID == m2.ID && got.ClientID == 1002)
		verif_Cover("C19.del.reclaimed")
	}
	verif_Cover("C19.del.done")
}

// Sequential orders: only the owner can delete; after deletion the name stops routing
// and becomes claimable again.
func Harness_C19_sequential() {
	ctx := context.Background()
	r := newC19Repo(ctx)
	a, err := r.CreateMapping(ctx, 1001, "app", "tunnox.net", "127.0.0.1", 8080)
	verif_Assert("C19.seq.create", err == nil)
	_, err = r.CreateMapping(ctx, 1002, "app", "tunnox.net", "127.0.0.1", 9090)
	verif_Assert("C19.seq.duplicate_refused", err != nil)
	verif_Assert("C19.seq.stranger_delete_refused", r.DeleteMapping(ctx, a.ID, 1002) != nil)
	got, err := r.LookupByDomain(ctx, "app.tunnox.net")
	verif_Assert("C19.seq.still_owner", err == nil && got.ClientID == 1001)
	verif_Assert("C19.seq.owner_delete", r.DeleteMapping(ctx, a.ID, 1001) == nil)
	_, err = r.LookupByDomain(ctx, "app.tunnox.net")
	verif_Assert("C19.seq.stops_routing", err != nil)
	b, err := r.CreateMapping(ctx, 1002, "app", "tunnox.net", "127.0.0.1", 9090)
	verif_Assert("C19.seq.reclaim", err == nil)
	got, err = r.LookupByDomain(ctx, "app.tunnox.net")
	verif_Assert("C19.seq.new_owner", err == nil && got.ClientID == 1002 && got.ID == b.ID)
	verif_Cover("C19.seq.done")
}

// A mapping created with a lifetime (create, then UpdateMapping with ExpiresAt, as the command
// adapter does) routes while it lives; after its expiry the stored record is expired and not
// active, the cleanup removes it and somebody else can claim the name.
func Harness_C19_expiry() {
	ctx := context.Background()
	t0 := int64(1) << 60
	verif_ClockSet(t0)
	now := time.Now().Unix() // the replay's clock is relative: take the absolute second from it
	r := newC19Repo(ctx)
	a, err := r.CreateMapping(ctx, 1001, "app", "tunnox.net", "127.0.0.1", 8080)
	verif_Assert("C19.exp.create", err == nil)
	ttl := int64(verif_Byte()) + 1
	a.ExpiresAt = now + ttl
	a.Description = "d"
	verif_Assert("C19.exp.update", r.UpdateMapping(ctx, a) == nil)
	// some other update of the updatable fields happens in between
	if verif_Bool() {
		cur, gerr := r.GetMapping(ctx, a.ID)
		verif_Assert("C19.exp.get", gerr == nil)
		cur.TargetPort = 9090
		verif_Assert("C19.exp.update2", r.UpdateMapping(ctx, cur) == nil)
	}
	dt := int64(verif_Byte())
	verif_ClockSet(t0 + dt*int64(time.Second))
	got, lerr := r.LookupByDomain(ctx, "app.tunnox.net")
	if dt <= ttl {
		verif_Assert("C19.exp.routes_while_alive", lerr == nil && got.ClientID == 1001 && got.IsActive())
	} else {
		verif_Assert("C19.exp.dead_after_expiry", lerr != nil || (got.IsExpired() && !got.IsActive()))
		// somebody else may try the name while the expired record is still there (whether that is
		// allowed is the implementation's choice - but whoever got the name keeps it)
		var early *HTTPDomainMapping
		if verif_Bool() {
			early, _ = r.CreateMapping(ctx, 1002, "app", "tunnox.net", "127.0.0.1", 9090)
		}
		// the expired record goes away: by the sweep or by its owner deleting it
		if verif_Bool() {
			n, cerr := r.CleanupExpiredMappings(ctx)
			verif_Assert("C19.exp.cleanup_removes", cerr == nil && n == 1)
		} else {
			verif_Assert("C19.exp.owner_deletes_expired", r.DeleteMapping(ctx, a.ID, 1001) == nil)
		}
		if early != nil {
			cur, cerr2 := r.LookupByDomain(ctx, "app.tunnox.net")
			verif_Assert("C19.exp.early_claimant_keeps_name", cerr2 == nil && cur.ID == early.ID && cur.ClientID == 1002)
			_, err3 := r.CreateMapping(ctx, 1003, "app", "tunnox.net", "127.0.0.1", 7070)
			verif_Assert("C19.exp.no_second_owner", err3 != nil)
			verif_Cover("C19.exp.early_claim")
		} else {
			_, err = r.CreateMapping(ctx, 1002, "app", "tunnox.net", "127.0.0.1", 9090)
			verif_Assert("C19.exp.name_free_again", err == nil)
		}
		verif_Cover("C19.exp.expired")
	}
	verif_Cover("C19.exp.done")
}
