package httpservice

import "tunnox-core/internal/cloud/models"

// The legacy in-memory registry: two clients register the same host at the same moment (the
// registry's lock operations are the scheduling points): at most one is told it owns the name, and
// the host then routes to that one.
func Harness_C19_registry_claim_race() {
	r := NewDomainRegistry([]string{"tunnox.net"})
	mk := func(id string, c int64, port int) *models.PortMapping {
		return &models.PortMapping{ID: id, Protocol: models.ProtocolHTTP, HTTPSubdomain: "app", HTTPBaseDomain: "tunnox.net",
			TargetClientID: c, TargetHost: "127.0.0.1", TargetPort: port, Status: models.MappingStatusActive}
	}
	var e1, e2 error
	verif_Spawn(func() { e1 = r.Register(mk("pm_a", 1001, 8001)) })
	verif_Spawn(func() { e2 = r.Register(mk("pm_b", 2002, 8002)) })
	verif_Quiesce()
	verif_Assert("C19.reg.at_most_one_owner", !(e1 == nil && e2 == nil))
	verif_Assert("C19.reg.one_wins", e1 == nil || e2 == nil)
	got, ok := r.LookupByHost("app.tunnox.net:443")
	verif_Assert("C19.reg.lookup", ok && got != nil)
	if e1 == nil {
		verif_Assert("C19.reg.routes_to_winner", got.TargetClientID == 1001 && got.TargetPort == 8001)
	} else {
		verif_Assert("C19.reg.routes_to_winner", got.TargetClientID == 2002 && got.TargetPort == 8002)
	}
	verif_Cover("C19.reg.done")
}

// Histories on the legacy registry: mappings (each with an id of its own) of two clients are
// registered for two names, released by name or by mapping id - also by the id of a mapping that
// was released long ago - and the registry is rebuilt from a mapping list. After every step each
// name routes to the mapping that currently owns it (client, target and id), or to nothing, and is
// reported available exactly when nobody owns it.
func Harness_C19_registry_histories() {
	r := NewDomainRegistry([]string{"tunnox.net"})
	subs := []string{"app", "api"}
	owner := map[string]*models.PortMapping{} // full domain -> current owner
	var all []*models.PortMapping              // every mapping ever made
	seq := 0
	mk := func(sub string, c int64) *models.PortMapping {
		seq++
		m := &models.PortMapping{ID: []string{"pm_0", "pm_1", "pm_2", "pm_3", "pm_4", "pm_5", "pm_6"}[seq], Protocol: models.ProtocolHTTP, HTTPSubdomain: sub, HTTPBaseDomain: "tunnox.net",
			TargetClientID: c, TargetHost: "127.0.0.1", TargetPort: 8000 + seq, Status: models.MappingStatusActive}
		all = append(all, m)
		return m
	}
	check := func() {
		for _, sub := range subs {
			d := sub + ".tunnox.net"
			got, ok := r.LookupByHost(d + ":443")
			want := owner[d]
			if want == nil {
				verif_Assert("C19.reghist.unowned_not_routed", !ok || got == nil)
				verif_Assert("C19.reghist.unowned_available", r.IsSubdomainAvailable(sub, "tunnox.net"))
			} else {
				verif_Assert("C19.reghist.routes_to_owner", ok && got != nil && got.ID == want.ID && got.TargetClientID == want.TargetClientID && got.TargetPort == want.TargetPort)
				verif_Assert("C19.reghist.owned_not_available", !r.IsSubdomainAvailable(sub, "tunnox.net"))
			}
		}
	}
	n := verif_Bound("events")
	for i := 0; i < n; i++ {
		switch verif_Choose(4) {
		case 0:
			sub := subs[verif_Choose(2)]
			m := mk(sub, []int64{1001, 2002}[verif_Choose(2)])
			err := r.Register(m)
			d := sub + ".tunnox.net"
			if owner[d] == nil {
				verif_Assert("C19.reghist.free_name_registered", err == nil)
				owner[d] = m
			} else {
				verif_Assert("C19.reghist.owned_name_refused", err != nil)
				verif_Cover("C19.reghist.refused")
			}
		case 1:
			d := subs[verif_Choose(2)] + ".tunnox.net"
			r.Unregister(d)
			delete(owner, d)
		case 2:
			if len(all) == 0 {
				continue
			}
			m := all[verif_Choose(len(all))]
			r.UnregisterByMappingID(m.ID)
			d := m.HTTPSubdomain + ".tunnox.net"
			if owner[d] == m {
				delete(owner, d)
				verif_Cover("C19.reghist.released_by_id")
			} else {
				verif_Cover("C19.reghist.stale_id_release")
			}
		case 3:
			// restart: the registry is rebuilt from the mappings that currently own a name
			var live []*models.PortMapping
			for _, sub := range subs {
				if m := owner[sub+".tunnox.net"]; m != nil {
					live = append(live, m)
				}
			}
			r.Rebuild(live)
			verif_Cover("C19.reghist.rebuilt")
		}
		check()
	}
	verif_Cover("C19.reghist.done")
}
