package httpservice

import "tunnox-core/internal/cloud/models"

// The legacy in-memory registry: two clients register the same host at the same moment (the
// registry's lock operations are the scheduling points): at most one is told it owns the name, and
// the host then routes to that one.
func Harness_C19_registry_claim_race() {
	r := NewDomainRegistry([]string{"tunnox.net"})
	mk := func(id string, c int64, port int) *models.PortMapping {
		return &models.PortMapping{ID: id, Protocol: models.ProtocolHTTP, HTTPSubdomain: "app", HTTPBaseDomain: "tunnox.net",
			TargetClientID: c, TargetHost: "127.0.0.1", TargetPort: port, Status: models.MappingStatusActive}
	}
	var e1, e2 error
	verif_Spawn(func() { e1 = r.Register(mk("pm_a", 1001, 8001)) })
	verif_Spawn(func() { e2 = r.Register(mk("pm_b", 2002, 8002)) })
	verif_Quiesce()
	verif_Assert("C19.reg.at_most_one_owner", !(e1 == nil && e2 == nil))
	verif_Assert("C19.reg.one_wins", e1 == nil || e2 == nil)
	got, ok := r.LookupByHost("app.tunnox.net:443")
	verif_Assert("C19.reg.lookup", ok && got != nil)
	if e1 == nil {
		verif_Assert("C19.reg.routes_to_winner", got.TargetClientID == 1001 && got.TargetPort == 8001)
	} else {
		verif_Assert("C19.reg.routes_to_winner", got.TargetClientID == 2002 && got.TargetPort == 8002)
	}
	verif_Cover("C19.reg.done")
}
