package domainproxy

import (
	"context"
	"time"

	"tunnox-core/internal/cloud/models"
	"tunnox-core/internal/cloud/repos"
	coreerrors "tunnox-core/internal/core/errors"
	"tunnox-core/internal/core/storage/memory"
	"tunnox-core/internal/httpservice"
)

// A Host header with or without a port names the same domain.
func Harness_C19_host_header() {
	n := verif_IntRange(1, verif_Bound("host"))
	b := verif_Bytes(n)
	for _, c := range b {
		verif_Assume(c != ':')
	}
	host := string(b)
	verif_Assert("C19.host.no_port", verif_StrEq(extractDomain(host), host))
	verif_Assert("C19.host.with_port", verif_StrEq(extractDomain(host+":8080"), host))
	verif_Assert("C19.host.with_port_443", verif_StrEq(extractDomain(host+":443"), host))
	verif_Cover("C19.host.done")
}

type c19Repo struct {
	repos.IHTTPDomainMappingRepository
	m *repos.HTTPDomainMapping
}

func (r *c19Repo) LookupByDomain(ctx context.Context, d string) (*repos.HTTPDomainMapping, error) {
	if r.m == nil {
		return nil, coreerrors.Newf(coreerrors.CodeMappingNotFound, "domain mapping not found: %s", d)
	}
	return r.m, nil
}

// Inactive or expired mappings never route; active unexpired ones route to their owner.
func Harness_C19_route_status() {
	now := int64(1) << 60
	verif_ClockSet(now)
	nowUnix := time.Now().Unix()
	st := []repos.HTTPDomainMappingStatus{repos.HTTPDomainMappingStatusActive, repos.HTTPDomainMappingStatusInactive, repos.HTTPDomainMappingStatusExpired}[verif_Choose(3)]
	exp := int64(0)
	if verif_Bool() {
		exp = nowUnix + int64(verif_IntRange(-3, 3))
	}
	hm := &repos.HTTPDomainMapping{ID: "hdm_1", Subdomain: "app", BaseDomain: "tunnox.net", FullDomain: "app.tunnox.net", ClientID: 1001, TargetHost: "127.0.0.1", TargetPort: 8080, Status: st, ExpiresAt: exp}
	m := &DomainProxyModule{}
	pm, err := m.lookupFromRepositoryWithRepo("app.tunnox.net", &c19Repo{m: hm})
	routable := st == repos.HTTPDomainMappingStatusActive && (exp == 0 || nowUnix <= exp)
	if routable {
		verif_Assert("C19.route.routes", err == nil && pm != nil && pm.TargetClientID == 1001 && pm.TargetPort == 8080)
		verif_Cover("C19.route.active")
	} else {
		verif_Assert("C19.route.refused", err != nil && pm == nil)
		verif_Cover("C19.route.refused")
	}
}

// The whole lookup chain (repository first, then the legacy in-memory registry): while the
// repository holds a record for the name - live, disabled, or expired and not yet swept - that
// record's client owns the name: the request goes to it or is rejected, and never falls through
// to a registry entry that another client has for the same host.
func Harness_C19_lookup_layers() {
	now := int64(1) << 60
	verif_ClockSet(now)
	nowUnix := time.Now().Unix()
	var hm *repos.HTTPDomainMapping
	routable := false
	if verif_Bool() {
		st := []repos.HTTPDomainMappingStatus{repos.HTTPDomainMappingStatusActive, repos.HTTPDomainMappingStatusInactive, repos.HTTPDomainMappingStatusExpired}[verif_Choose(3)]
		exp := int64(0)
		if verif_Bool() {
			exp = nowUnix + int64(verif_IntRange(-3, 3))
		}
		hm = &repos.HTTPDomainMapping{ID: "hdm_1", Subdomain: "app", BaseDomain: "tunnox.net", FullDomain: "app.tunnox.net", ClientID: 1001, TargetHost: "127.0.0.1", TargetPort: 8080, Status: st, ExpiresAt: exp}
		routable = st == repos.HTTPDomainMappingStatusActive && (exp == 0 || nowUnix <= exp)
	}
	registry := httpservice.NewDomainRegistry([]string{"tunnox.net"})
	other := verif_Bool()
	if other {
		err := registry.Register(&models.PortMapping{ID: "pm_other", Protocol: models.ProtocolHTTP, HTTPSubdomain: "app", HTTPBaseDomain: "tunnox.net",
			TargetClientID: 2002, TargetHost: "10.0.0.9", TargetPort: 9000, Status: models.MappingStatusActive})
		verif_Assert("C19.layers.setup.registry", err == nil)
	}
	m := &DomainProxyModule{deps: &httpservice.ModuleDependencies{DomainRegistry: registry, HTTPDomainMappingRepo: &c19Repo{m: hm}}}
	host := []string{"app.tunnox.net", "app.tunnox.net:443"}[verif_Choose(2)]
	pm, err := m.lookupMapping(host)
	switch {
	case hm != nil && routable:
		verif_Assert("C19.layers.routes_to_owner", err == nil && pm != nil && pm.TargetClientID == 1001 && pm.TargetPort == 8080)
		verif_Cover("C19.layers.owner")
	case hm != nil:
		verif_Assert("C19.layers.owned_name_rejected", err != nil && pm == nil)
		if other {
			verif_Cover("C19.layers.no_fallthrough")
		}
	case other:
		verif_Assert("C19.layers.registry_owner", err == nil && pm != nil && pm.TargetClientID == 2002 && pm.TargetPort == 9000)
	default:
		verif_Assert("C19.layers.unknown_rejected", err != nil && pm == nil)
	}
	verif_Cover("C19.layers.done")
}

// The lookup chain over the REAL repository and the real legacy registry, through a domain's life:
// claimed by one client, served (the host is looked up, with or without a port), deleted, claimed
// by another client, deleted again. At every point a request for the host goes to the current
// owner's client and target, or is rejected when nobody owns the name - never to a former owner.
func Harness_C19_lookup_lifecycle() {
	ctx := context.Background()
	verif_ClockSet(int64(1) << 60)
	repo := repos.NewHTTPDomainMappingRepository(repos.NewRepository(memory.New(ctx)), []string{"tunnox.net"})
	registry := httpservice.NewDomainRegistry([]string{"tunnox.net"})
	m := &DomainProxyModule{deps: &httpservice.ModuleDependencies{DomainRegistry: registry, HTTPDomainMappingRepo: repo}}
	hosts := []string{"app.tunnox.net", "app.tunnox.net:443"}
	var owner int64 // 0: nobody
	var ownerPort int
	var cur *repos.HTTPDomainMapping
	check := func(tag string) {
		pm, err := m.lookupMapping(hosts[verif_Choose(2)])
		if owner == 0 {
			verif_Assert("C19.life."+tag+".unowned_rejected", err != nil && pm == nil)
		} else {
			verif_Assert("C19.life."+tag+".routes_to_owner", err == nil && pm != nil && pm.TargetClientID == owner && pm.TargetPort == ownerPort)
		}
	}
	n := verif_Bound("events")
	for i := 0; i < n; i++ {
		switch verif_Choose(3) {
		case 0: // a client claims the name
			c := []int64{1001, 2002}[verif_Choose(2)]
			port := 8000 + int(c%10)
			mp, err := repo.CreateMapping(ctx, c, "app", "tunnox.net", "127.0.0.1", port)
			if owner == 0 {
				verif_Assert("C19.life.claim_free_name", err == nil && mp != nil)
				owner, ownerPort, cur = c, port, mp
			} else {
				verif_Assert("C19.life.claim_owned_name_refused", err != nil)
			}
		case 1: // the owner deletes its mapping
			if cur == nil {
				continue
			}
			verif_Assert("C19.life.owner_deletes", repo.DeleteMapping(ctx, cur.ID, owner) == nil)
			owner, ownerPort, cur = 0, 0, nil
			verif_Cover("C19.life.deleted")
		case 2: // a request for the host is served
			check("served")
		}
	}
	check("final")
	verif_Cover("C19.life.done")
}
