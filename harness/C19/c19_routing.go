package domainproxy

import (
	"context"
	"time"

	"tunnox-core/internal/cloud/repos"
)

// A Host header with or without a port names the same domain.
func Harness_C19_host_header() {
	n := verif_IntRange(1, verif_Bound("host"))
	b := verif_Bytes(n)
	for _, c := range b {
		verif_Assume(c != ':')
	}
	host := string(b)
	verif_Assert("C19.host.no_port", verif_StrEq(extractDomain(host), host))
	verif_Assert("C19.host.with_port", verif_StrEq(extractDomain(host+":8080"), host))
	verif_Assert("C19.host.with_port_443", verif_StrEq(extractDomain(host+":443"), host))
	verif_Cover("C19.host.done")
}

type c19Repo struct {
	repos.IHTTPDomainMappingRepository
	m *repos.HTTPDomainMapping
}

func (r *c19Repo) LookupByDomain(ctx context.Context, d string) (*repos.HTTPDomainMapping, error) {
	return r.m, nil
}

// Inactive or expired mappings never route; active unexpired ones route to their owner.
func Harness_C19_route_status() {
	now := int64(1) << 60
	verif_ClockSet(now)
	nowUnix := time.Now().Unix()
	st := []repos.HTTPDomainMappingStatus{repos.HTTPDomainMappingStatusActive, repos.HTTPDomainMappingStatusInactive, repos.HTTPDomainMappingStatusExpired}[verif_Choose(3)]
	exp := int64(0)
	if verif_Bool() {
		exp = nowUnix + int64(verif_IntRange(-3, 3))
	}
	hm := &repos.HTTPDomainMapping{ID: "hdm_1", Subdomain: "app", BaseDomain: "tunnox.net", FullDomain: "app.tunnox.net", ClientID: 1001, TargetHost: "127.0.0.1", TargetPort: 8080, Status: st, ExpiresAt: exp}
	m := &DomainProxyModule{}
	pm, err := m.lookupFromRepositoryWithRepo("app.tunnox.net", &c19Repo{m: hm})
	routable := st == repos.HTTPDomainMappingStatusActive && (exp == 0 || nowUnix <= exp)
	if routable {
		verif_Assert("C19.route.routes", err == nil && pm != nil && pm.TargetClientID == 1001 && pm.TargetPort == 8080)
		verif_Cover("C19.route.active")
	} else {
		verif_Assert("C19.route.refused", err != nil && pm == nil)
		verif_Cover("C19.route.refused")
	}
}
