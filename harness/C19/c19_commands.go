package server

import (
	"context"
	"encoding/json"
	"fmt"

	"tunnox-core/internal/cloud/repos"
	"tunnox-core/internal/command"
	"tunnox-core/internal/core/storage/memory"
	"tunnox-core/internal/packet"
)

// The way clients actually claim and give up names: the http_domain_create / http_domain_delete
// command handlers over the real repository adapter and repository. Two clients (and an
// unauthenticated caller) act on one name in any order; the identity is the connection's, the
// mapping id in a delete request is whatever the caller sends. After every command a lookup of the
// host returns the rightful owner's mapping or nothing.
func Harness_C19_command_path() {
	ctx := context.Background()
	verif_ClockSet(int64(1) << 60)
	repo := repos.NewHTTPDomainMappingRepository(repos.NewRepository(memory.New(ctx)), []string{"tunnox.net"})
	ad := NewHTTPDomainRepositoryAdapter(repo)
	create := command.NewHTTPDomainCreateHandler(ad, ad)
	del := command.NewHTTPDomainDeleteHandler(ad)
	var owner int64
	var ownerPort int
	curID := ""
	lastID := "" // id of the most recent mapping, also after it was deleted
	check := func(tag string) {
		m := ad.GetMapping("app.tunnox.net")
		if owner == 0 {
			verif_Assert("C19.cmd."+tag+".unowned_not_found", m == nil)
		} else {
			verif_Assert("C19.cmd."+tag+".routes_to_owner", m != nil && m.ClientID == owner && m.TargetPort == ownerPort && m.ID == curID)
		}
	}
	n := verif_Bound("events")
	for i := 0; i < n; i++ {
		c := []int64{1001, 2002, 0}[verif_Choose(3)]
		if verif_Bool() {
			port := 8000 + int(c%10)
			ttl := []int{0, 3600}[verif_Choose(2)]
			body, _ := json.Marshal(&packet.HTTPDomainCreateRequest{TargetURL: fmt.Sprintf("http://127.0.0.1:%d", port), Subdomain: "app", BaseDomain: "tunnox.net", MappingTTL: ttl, Description: "d"})
			resp, err := create.Handle(&command.CommandContext{ConnectionID: "c", ClientID: c, RequestBody: string(body), RequestID: "r", CommandId: "i"})
			verif_Assert("C19.cmd.create_answers", err == nil && resp != nil)
			var out packet.HTTPDomainCreateResponse
			verif_Assert("C19.cmd.create_reply_json", json.Unmarshal([]byte(resp.Data), &out) == nil)
			if c != 0 && owner == 0 {
				verif_Assert("C19.cmd.free_name_claimed", resp.Success && out.Success && out.MappingID != "" && out.FullDomain == "app.tunnox.net")
				owner, ownerPort, curID, lastID = c, port, out.MappingID, out.MappingID
				verif_Cover("C19.cmd.claimed")
			} else {
				verif_Assert("C19.cmd.claim_refused", !resp.Success && !out.Success)
				if c != 0 {
					verif_Cover("C19.cmd.owned_name_refused")
				}
			}
		} else {
			if lastID == "" {
				continue
			}
			body, _ := json.Marshal(&packet.HTTPDomainDeleteRequest{MappingID: lastID})
			resp, err := del.Handle(&command.CommandContext{ConnectionID: "c", ClientID: c, RequestBody: string(body), RequestID: "r", CommandId: "i"})
			verif_Assert("C19.cmd.delete_answers", err == nil && resp != nil)
			if c != 0 && c == owner && lastID == curID {
				verif_Assert("C19.cmd.owner_deletes", resp.Success)
				owner, ownerPort, curID = 0, 0, ""
				verif_Cover("C19.cmd.deleted")
			} else if c == 0 || lastID == curID {
				verif_Assert("C19.cmd.foreign_delete_refused", !resp.Success)
				if c != 0 {
					verif_Cover("C19.cmd.foreign_delete")
				}
			} else {
				// the mapping is gone already: the repository answers such a delete with success
				// (idempotent); whatever the answer, nothing changes (checked below)
				verif_Cover("C19.cmd.delete_of_deleted")
			}
		}
		check("after")
	}
	verif_Cover("C19.cmd.done")
}
