package node

import (
	"context"
	"errors"
	"fmt"
	"time"

	"tunnox-core/internal/core/storage/hybrid"
	"tunnox-core/internal/core/storage/memory"
)

// While node A has not released its id and keeps renewing it (30 s heartbeat), another
// node must not obtain the same id, however long A lives.
func Harness_C15_nodeid() {
	ctx := context.Background()
	now := int64(1) << 60
	verif_ClockSet(now)
	shared := &c15Flaky{Storage: memory.New(ctx)}
	ha := hybrid.NewWithSharedCache(ctx, memory.New(ctx), shared, nil, hybrid.DefaultConfig())
	hb := hybrid.NewWithSharedCache(ctx, memory.New(ctx), shared, nil, hybrid.DefaultConfig())
	a, b := NewNodeIDAllocator(ha), NewNodeIDAllocator(hb)
	// stop the heartbeat goroutines on every exit path (the native replay runs in a
	// synctest bubble that waits for them)
	defer func() {
		a.Release()
		b.Release()
		verif_Quiesce()
	}()
	idA, err := a.AllocateNodeID(ctx)
	verif_Assert("C15.node.a", err == nil && idA != "")
	rounds := verif_IntRange(0, verif_Bound("rounds"))
	for i := 0; i < rounds; i++ {
		now += int64(30 * time.Second)
		verif_ClockSet(now)
		verif_Quiesce() // the heartbeat goroutine handles its tick
	}
	// the shared cache may be unreachable for the atomic claim while the second node starts
	shared.failSetNX = verif_Bool()
	idB, errB := b.AllocateNodeID(ctx)
	shared.failSetNX = false
	if errB != nil {
		verif_Cover("C15.node.clean_failure")
	}
	verif_Known("C15-nodeid-renewal-wrong-tier", rounds >= 3)
	verif_Assert("C15.node.distinct", errB != nil || idB != idA)
	verif_Cover("C15.node.done")
}

// c15Flaky is the shared cache with an outage switch for its atomic set-if-absent
type c15Flaky struct {
	*memory.Storage
	failSetNX bool
}

func (f *c15Flaky) SetNX(key string, v interface{}, ttl time.Duration) (bool, error) {
	if f.failSetNX {
		return false, errC15Down
	}
	return f.Storage.SetNX(key, v, ttl)
}

var errC15Down = errors.New("shared cache unreachable")

// Every node-id slot is held by a live node: a further allocation fails cleanly - the failed
// allocator owns no id, and releasing it (as shutdown does) takes nothing away from the holders.
func Harness_C15_nodeid_exhausted() {
	ctx := context.Background()
	verif_ClockSet(int64(1) << 60)
	st := memory.New(ctx)
	for id := NodeIDMin; id <= NodeIDMax; id++ {
		nid := fmt.Sprintf("node-%04d", id)
		verif_Assert("C15.full.setup", st.Set(NodeIDKeyPrefix+nid, nid, NodeIDLockTTL) == nil)
	}
	b := NewNodeIDAllocator(st)
	id, err := b.AllocateNodeID(ctx)
	verif_Assert("C15.full.fails_cleanly", err != nil && id == "")
	verif_Assert("C15.full.owns_nothing", b.GetNodeID() == "")
	b.Release()
	first, _ := st.Exists(NodeIDKeyPrefix + fmt.Sprintf("node-%04d", NodeIDMin))
	last, _ := st.Exists(NodeIDKeyPrefix + fmt.Sprintf("node-%04d", NodeIDMax))
	verif_Assert("C15.full.holders_keep_their_slots", first && last)
	verif_Cover("C15.full.done")
}

// A node whose claim lapsed (it could not renew for longer than the lock's lifetime) and whose slot
// was then taken by another node goes away - its context is cancelled, or it shuts down gracefully.
// The new holder keeps the slot: a third node never gets the same id while the second one lives.
func Harness_C15_nodeid_lapsed_owner() {
	verif_ClockSet(int64(1) << 60)
	ctx := context.Background()
	st := memory.New(ctx)
	a, b, c := NewNodeIDAllocator(st), NewNodeIDAllocator(st), NewNodeIDAllocator(st)
	ctxA, cancelA := context.WithCancel(ctx)
	defer func() {
		cancelA()
		b.Release()
		c.Release()
		verif_Quiesce()
	}()
	idA, err := a.AllocateNodeID(ctxA)
	verif_Assert("C15.lapse.a", err == nil && idA != "")
	// A's claim lapses (the store dropped it after its lifetime; A was cut off and did not renew)
	verif_Assert("C15.lapse.setup", st.Delete(NodeIDKeyPrefix+idA) == nil)
	idB, errB := b.AllocateNodeID(ctx)
	verif_Assert("C15.lapse.b_takes_free_slot", errB == nil && idB == idA)
	graceful := verif_Bool()
	if graceful {
		// known finding: Release deletes the slot key without checking whose claim it holds
		a.Release()
	} else {
		cancelA()
		verif_Cover("C15.lapse.cancelled")
	}
	verif_Quiesce()
	held, _ := st.Exists(NodeIDKeyPrefix + idB)
	verif_Known("C15-lapsed-owner-release-frees-successors-slot", graceful)
	verif_Assert("C15.lapse.successor_keeps_slot", held)
	idC, errC := c.AllocateNodeID(ctx)
	verif_Assert("C15.lapse.third_node_distinct", errC != nil || idC != idB)
	verif_Cover("C15.lapse.done")
}
