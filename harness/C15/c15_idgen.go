package idgen

import (
	"context"
	"errors"
	"time"

	"tunnox-core/internal/core/storage"
	"tunnox-core/internal/core/storage/hybrid"
	"tunnox-core/internal/core/storage/memory"
)

// c15Store forwards to a real store and makes every operation a scheduling point.
type c15Store struct {
	storage.Storage
	cas    storage.CASStore
	failNX *int // >0: that many following SetNX calls (on any node sharing the counter) fail with a store error
}

func (s *c15Store) Set(k string, v any, ttl time.Duration) error {
	verif_Yield()
	return s.Storage.Set(k, v, ttl)
}
func (s *c15Store) Get(k string) (any, error)     { verif_Yield(); return s.Storage.Get(k) }
func (s *c15Store) Delete(k string) error         { verif_Yield(); return s.Storage.Delete(k) }
func (s *c15Store) Exists(k string) (bool, error) { verif_Yield(); return s.Storage.Exists(k) }
func (s *c15Store) SetNX(k string, v any, ttl time.Duration) (bool, error) {
	verif_Yield()
	if s.failNX != nil && *s.failNX > 0 {
		*s.failNX--
		return false, errC15Store
	}
	return s.cas.SetNX(k, v, ttl)
}
func (s *c15Store) CompareAndSwap(k string, o, n any, ttl time.Duration) (bool, error) {
	verif_Yield()
	return s.cas.CompareAndSwap(k, o, n, ttl)
}

var errC15Store = errors.New("store: transient error")

func c15Stores(ctx context.Context) []storage.Storage {
	mem := memory.New(ctx)
	if verif_Bool() {
		return []storage.Storage{&c15Store{Storage: mem, cas: mem}, &c15Store{Storage: mem, cas: mem}}
	}
	shared := memory.New(ctx)
	h1 := hybrid.NewWithSharedCache(ctx, memory.New(ctx), shared, nil, hybrid.DefaultConfig())
	h2 := hybrid.NewWithSharedCache(ctx, memory.New(ctx), shared, nil, hybrid.DefaultConfig())
	return []storage.Storage{&c15Store{Storage: h1, cas: h1}, &c15Store{Storage: h2, cas: h2}}
}

// Sequential use of the public API with candidates from a set of two: a taken candidate
// is never handed out, a released one may be, and failure is clean.
func Harness_C15_generate() {
	verif_UseTapeRandom()
	verif_ClockSet(int64(1) << 60) // all generations happen within the 30-day marker lifetime
	ctx := context.Background()
	sts := c15Stores(ctx)
	g1 := NewClientIDGenerator(sts[0], ctx)
	g2 := NewClientIDGenerator(sts[1], ctx)
	taken, err := g1.Generate()
	verif_Assert("C15.gen.first", err == nil)
	used, _ := g2.IsUsed(taken)
	verif_Assert("C15.gen.marked_everywhere", used)
	// time passes - less than the marker's lifetime, more than any cache lifetime of a tiered store
	wait := []time.Duration{0, 2 * time.Hour, 25 * time.Hour, 29 * 24 * time.Hour}[verif_Choose(4)]
	verif_ClockSet(int64(1)<<60 + int64(wait))
	if wait > 0 {
		used, _ = g2.IsUsed(taken)
		verif_Assert("C15.gen.marker_lives_30_days", used)
		verif_Cover("C15.gen.time_passed")
	}
	// the other node generates: it must never return the taken id - also when its first claim
	// attempt hits a transient store error
	if st2, ok := sts[1].(*c15Store); ok && verif_Bool() {
		one := 1
		st2.failNX = &one
		verif_Cover("C15.gen.store_error")
	}
	second, err2 := g2.Generate()
	stillUsed, _ := g1.IsUsed(taken)
	verif_Assert("C15.gen.holder_keeps_marker", stillUsed)
	if err2 == nil {
		verif_Assert("C15.gen.not_taken", second != taken)
		verif_Cover("C15.gen.collision_avoided")
		verif_Assert("C15.gen.release", g2.Release(second) == nil)
	} else {
		verif_Assert("C15.gen.clean_failure", err2 == ErrIDExhausted)
	}
	verif_Assert("C15.gen.release_first", g1.Release(taken) == nil)
	used, _ = g2.IsUsed(taken)
	verif_Assert("C15.gen.released_everywhere", !used)
	verif_Cover("C15.gen.done")
}

// The claim step itself under concurrency: two generator instances (two nodes) claim
// solver-chosen candidates at the same time, one candidate possibly taken already.
// Equal candidates are never both granted; a taken candidate is never granted.
func Harness_C15_claim_race() {
	verif_ClockSet(int64(1) << 60)
	ctx := context.Background()
	sts := c15Stores(ctx)
	g1 := NewClientIDGenerator(sts[0], ctx)
	g2 := NewClientIDGenerator(sts[1], ctx)
	c1 := ClientIDMin + int64(verif_Choose(2))
	c2 := ClientIDMin + int64(verif_Choose(2))
	pre := verif_Bool()
	if pre {
		ok, err := g1.tryMarkAsUsed(ClientIDMin)
		verif_Assert("C15.race.pre", ok && err == nil)
	}
	var ok1, ok2 bool
	verif_Spawn(func() { ok1, _ = g1.tryMarkAsUsed(c1) })
	verif_Spawn(func() { ok2, _ = g2.tryMarkAsUsed(c2) })
	verif_Quiesce()
	if c1 == c2 {
		verif_Assert("C15.race.exclusive", !(ok1 && ok2))
		if !(pre && c1 == ClientIDMin) {
			verif_Assert("C15.race.one_wins", ok1 || ok2)
		}
	}
	if pre && c1 == ClientIDMin {
		verif_Assert("C15.race.taken_refused_1", !ok1)
	}
	if pre && c2 == ClientIDMin {
		verif_Assert("C15.race.taken_refused_2", !ok2)
	}
	verif_Cover("C15.race.done")
}

// When no free id exists generation fails cleanly instead of duplicating.
func Harness_C15_exhaustion() {
	verif_UseTapeRandom()
	verif_ClockSet(int64(1) << 60)
	ctx := context.Background()
	mem := memory.New(ctx)
	g := NewClientIDGenerator(mem, ctx)
	first, err := g.Generate()
	verif_Assert("C15.exh.first", err == nil)
	second, err2 := g.Generate()
	verif_Assert("C15.exh.fails", err2 == ErrIDExhausted)
	verif_Assert("C15.exh.no_duplicate", second != first)
	verif_Cover("C15.exhausted")
}

// ---- the non-atomic fallback for stores without SetNX ------------------------------------------

// c15Plain is a store without the CAS extension (as the remote gRPC store): only the base
// interface is visible to the generator. While the generator is inside its check-then-set, the
// double probes the generator's own lock: the fallback is only safe if nobody else - reader or
// writer - can be between this caller's Exists and its Set.
type c15Plain struct {
	storage.Storage
	probe      func() bool // true: the generator's lock could be taken for reading right now
	unlockedAt []string
	ops        []string
}

func (p *c15Plain) Exists(key string) (bool, error) {
	p.ops = append(p.ops, "exists")
	if p.probe != nil && p.probe() {
		p.unlockedAt = append(p.unlockedAt, "exists")
	}
	return p.Storage.Exists(key)
}
func (p *c15Plain) Set(key string, v interface{}, ttl time.Duration) error {
	p.ops = append(p.ops, "set")
	if p.probe != nil && p.probe() {
		p.unlockedAt = append(p.unlockedAt, "set")
	}
	return p.Storage.Set(key, v, ttl)
}

// Sequential part: every store operation of the fallback runs while the generator's lock is
// held exclusively, a taken id is refused, and a second claim of the same id fails.
func Harness_C15_fallback_locked() {
	verif_ClockSet(int64(1) << 60)
	ctx := context.Background()
	plain := &c15Plain{Storage: memory.New(ctx)}
	var st storage.Storage = plain
	_, isCAS := st.(storage.CASStore)
	verif_Assert("C15.fb.setup.no_cas", !isCAS)
	g := NewClientIDGenerator(st, ctx)
	plain.probe = func() bool {
		if g.mu.TryRLock() {
			g.mu.RUnlock()
			return true
		}
		return false
	}
	id := ClientIDMin + int64(verif_Choose(2))
	ok1, err1 := g.tryMarkAsUsed(id)
	verif_Assert("C15.fb.first_claim", ok1 && err1 == nil)
	ok2, err2 := g.tryMarkAsUsed(id)
	verif_Assert("C15.fb.second_refused", !ok2 && err2 == nil)
	verif_Assert("C15.fb.lock_held_during_store_ops", len(plain.unlockedAt) == 0)
	verif_Assert("C15.fb.used_store", len(plain.ops) >= 3)
	verif_Cover("C15.fb.done")
}

// Concurrent part: two callers of one generator claim the same candidate through the fallback.
func Harness_C15_fallback_race() {
	verif_ClockSet(int64(1) << 60)
	ctx := context.Background()
	plain := &c15Plain{Storage: memory.New(ctx)}
	g := NewClientIDGenerator(plain, ctx)
	var ok1, ok2 bool
	verif_Spawn(func() { ok1, _ = g.tryMarkAsUsed(ClientIDMin) })
	verif_Spawn(func() { ok2, _ = g.tryMarkAsUsed(ClientIDMin) })
	verif_Quiesce()
	verif_Assert("C15.fbrace.exclusive", !(ok1 && ok2))
	verif_Assert("C15.fbrace.one_wins", ok1 || ok2)
	verif_Cover("C15.fbrace.done")
}

// ---- the string instantiation, through the IDManager -----------------------------------------

// Mapping, user and node ids come from StorageIDGenerator[string] behind IDManager: two managers
// (two nodes) on one store, candidates from a set of two. A taken id is never handed out again
// while its holder has not released it - sequentially and when both nodes generate at once - and
// the kinds do not disturb each other (a user id's marker does not block the same random part as a
// mapping id).
func Harness_C15_manager_strings() {
	verif_UseTapeRandom()
	verif_ClockSet(int64(1) << 60)
	ctx := context.Background()
	sts := c15Stores(ctx)
	m1, m2 := NewIDManager(sts[0], ctx), NewIDManager(sts[1], ctx)
	kind := verif_Choose(3)
	gen := func(m *IDManager, k int) (string, error) {
		switch k {
		case 0:
			return m.GeneratePortMappingID()
		case 1:
			return m.GenerateUserID()
		}
		return m.GenerateNodeID()
	}
	used := func(m *IDManager, k int, id string) bool {
		var u bool
		switch k {
		case 0:
			u, _ = m.IsPortMappingIDUsed(id)
		case 1:
			u, _ = m.IsUserIDUsed(id)
		default:
			u, _ = m.IsNodeIDUsed(id)
		}
		return u
	}
	first, err := gen(m1, kind)
	verif_Assert("C15.str.first", err == nil && first != "")
	verif_Assert("C15.str.marked_everywhere", used(m2, kind, first))
	if verif_Bool() {
		// sequential: the other node generates the same kind, then another kind
		second, err2 := gen(m2, kind)
		if err2 == nil {
			verif_Assert("C15.str.not_taken", second != first)
			verif_Cover("C15.str.collision_avoided")
		} else {
			verif_Assert("C15.str.clean_failure", err2 == ErrIDExhausted)
		}
		other, err3 := gen(m2, (kind+1)%3)
		verif_Assert("C15.str.other_kind_independent", err3 == nil && other != "")
		verif_Assert("C15.str.holder_keeps_marker", used(m1, kind, first))
	} else {
		// both nodes claim solver-chosen candidates of that kind at the same time (the claim step
		// of the string instantiation; Generate's retry loop around it is the sequential part)
		g1 := []IDGenerator[string]{m1.portMappingIDGen, m1.userIDGen, m1.nodeIDGen}[kind].(*StorageIDGenerator[string])
		g2 := []IDGenerator[string]{m2.portMappingIDGen, m2.userIDGen, m2.nodeIDGen}[kind].(*StorageIDGenerator[string])
		cands := []string{first, first + "x"}
		c1, c2 := cands[verif_Choose(2)], cands[verif_Choose(2)]
		var ok1, ok2 bool
		verif_Spawn(func() { ok1, _ = g1.tryMarkAsUsed(c1) })
		verif_Spawn(func() { ok2, _ = g2.tryMarkAsUsed(c2) })
		verif_Quiesce()
		verif_Assert("C15.str.race.taken_refused", !(ok1 && c1 == first) && !(ok2 && c2 == first))
		if c1 == c2 {
			verif_Assert("C15.str.race.exclusive", !(ok1 && ok2))
			if c1 != first {
				verif_Assert("C15.str.race.one_wins", ok1 || ok2)
			}
		}
		verif_Cover("C15.str.race")
	}
	verif_Cover("C15.str.done")
}
