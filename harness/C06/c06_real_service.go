package services

import (
	"context"
	"errors"
	"strings"
	"time"

	"tunnox-core/internal/cloud/models"
	"tunnox-core/internal/cloud/repos"
	"tunnox-core/internal/core/idgen"
	"tunnox-core/internal/core/storage/memory"
)

// c06FaultStore is the real memory store whose failAt-th write (Set, AppendToList, SetNX)
// counted from the moment it is armed fails - one storage-write failure.
type c06FaultStore struct {
	*memory.Storage
	armed  bool
	writes int
	failAt int
	failed string // key of the write that failed
}

var errC06Injected = errors.New("c06: injected storage write failure")

func (s *c06FaultStore) hit(k string) bool {
	if !s.armed {
		return false
	}
	s.writes++
	if s.failAt != 0 && s.writes == s.failAt {
		s.failed = k
		return true
	}
	return false
}
func (s *c06FaultStore) Set(k string, v any, ttl time.Duration) error {
	if s.hit(k) {
		return errC06Injected
	}
	return s.Storage.Set(k, v, ttl)
}
func (s *c06FaultStore) AppendToList(k string, v any) error {
	if s.hit(k) {
		return errC06Injected
	}
	return s.Storage.AppendToList(k, v)
}
func (s *c06FaultStore) SetNX(k string, v any, ttl time.Duration) (bool, error) {
	if s.hit(k) {
		return false, errC06Injected
	}
	return s.Storage.SetNX(k, v, ttl)
}

// mappingRecords counts the port-mapping records the store holds, whatever indexes point at them.
func (s *c06FaultStore) mappingRecords() int {
	m, _ := s.Storage.QueryByPrefix("tunnox:port_mapping:", 0)
	n := 0
	for k := range m {
		if strings.HasPrefix(k, "tunnox:port_mapping:") {
			n++
		}
	}
	return n
}

// Activation through the REAL port-mapping service and repositories (record, global list, both
// client indexes) with one storage write failing at any position: an activation that reports
// failure leaves no mapping behind - no record, no list or index entry - and the code can then
// still be used exactly once; one that reports success has created exactly one mapping.
func Harness_C06_real_service_faults() {
	verif_ClockSet(int64(1) << 60)
	verif_UseTapeRandom()
	ctx, stop := context.WithCancel(context.Background())
	defer stop()
	st := &c06FaultStore{Storage: memory.New(ctx)}
	repo := repos.NewRepository(st)
	mappingRepo := repos.NewPortMappingRepo(repo)
	codeRepo := repos.NewConnectionCodeRepository(repo)
	ids := idgen.NewIDManager(memory.New(ctx), ctx) // id markers live elsewhere: not the subject here
	pms := NewPortMappingService(mappingRepo, ids, nil, ctx)
	svc := NewConnectionCodeService(codeRepo, pms, mappingRepo, nil, ctx)
	now := time.Now()
	code := &models.TunnelConnectionCode{ID: "conncode_1", Code: "abc-def-ghi", TargetClientID: 3001, TargetAddress: "tcp://10.0.0.5:3306",
		ActivationTTL: time.Hour, MappingDuration: time.Hour, CreatedAt: now, ActivationExpiresAt: now.Add(time.Hour), CreatedBy: "t"}
	verif_Assert("C06.real.setup.create", codeRepo.Create(code) == nil)

	st.failAt = verif_IntRange(0, verif_Bound("writes"))
	st.armed = true
	m1, e1 := svc.ActivateConnectionCode(&ActivateConnectionCodeRequest{Code: "abc-def-ghi", ListenClientID: 2001, ListenAddress: "0.0.0.0:9001"})
	st.armed = false
	listed := func() int {
		all, _ := mappingRepo.ListAllMappings()
		l, _ := mappingRepo.GetClientPortMappings("2001")
		t, _ := mappingRepo.GetClientPortMappings("3001")
		n := len(all)
		if len(l) > n {
			n = len(l)
		}
		if len(t) > n {
			n = len(t)
		}
		return n
	}
	if e1 != nil {
		verif_Assert("C06.real.failed_leaves_no_record", st.mappingRecords() == 0)
		verif_Assert("C06.real.failed_leaves_no_index_entry", listed() == 0)
		verif_Cover("C06.real.failed")
		// a retry (no fault this time) either succeeds or, when the failed attempt got as far as
		// marking the code, is refused - and then again leaves nothing behind
		m2, e2 := svc.ActivateConnectionCode(&ActivateConnectionCodeRequest{Code: "abc-def-ghi", ListenClientID: 2001, ListenAddress: "0.0.0.0:9001"})
		if e2 != nil {
			verif_Assert("C06.real.refused_retry_leaves_nothing", st.mappingRecords() == 0 && listed() == 0)
			verif_Cover("C06.real.retry_refused")
			return
		}
		verif_Assert("C06.real.retry_mapping", m2 != nil)
		m1 = m2
		verif_Cover("C06.real.retry_succeeded")
	} else {
		verif_Cover("C06.real.succeeded")
	}
	verif_Assert("C06.real.one_mapping", m1 != nil && st.mappingRecords() == 1 && listed() == 1)
	verif_Assert("C06.real.mapping_fields", m1.ListenClientID == 2001 && m1.TargetClientID == 3001 && m1.TargetAddress == "tcp://10.0.0.5:3306")
	_, e3 := svc.ActivateConnectionCode(&ActivateConnectionCodeRequest{Code: "abc-def-ghi", ListenClientID: 2002, ListenAddress: "0.0.0.0:9002"})
	verif_Assert("C06.real.used_once", e3 != nil && st.mappingRecords() == 1)
	verif_Cover("C06.real.done")
}
