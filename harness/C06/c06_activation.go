package conncode

import (
	"context"
	"errors"
	"fmt"
	"time"

	"tunnox-core/internal/cloud/models"
	"tunnox-core/internal/cloud/repos"
	"tunnox-core/internal/core/storage"
	"tunnox-core/internal/core/storage/hybrid"
	"tunnox-core/internal/core/storage/memory"
)

// c06Store: real memory.Storage; every operation is a scheduling point; the failAt-th
// write (Set) fails when fault injection is armed.
type c06Store struct {
	*memory.Storage
	writes int
	failAt int // 0: never
}

var c06ErrInjected = errors.New("c06: injected storage write failure")

func (s *c06Store) Set(k string, v any, ttl time.Duration) error {
	verif_Yield()
	s.writes++
	if s.failAt != 0 && s.writes == s.failAt {
		return c06ErrInjected
	}
	return s.Storage.Set(k, v, ttl)
}
func (s *c06Store) Get(k string) (any, error) { verif_Yield(); return s.Storage.Get(k) }
func (s *c06Store) Delete(k string) error     { verif_Yield(); return s.Storage.Delete(k) }
func (s *c06Store) AppendToList(k string, v any) error {
	verif_Yield()
	return s.Storage.AppendToList(k, v)
}
func (s *c06Store) RemoveFromList(k string, v any) error {
	verif_Yield()
	return s.Storage.RemoveFromList(k, v)
}
func (s *c06Store) GetList(k string) ([]any, error) { verif_Yield(); return s.Storage.GetList(k) }

var _ storage.Storage = (*c06Store)(nil)

// mapping service / repository doubles
type c06Mappings struct {
	m      map[string]*models.PortMapping
	nextID int
	slow   time.Duration // creating a mapping takes this long (slow storage)
	fail   bool          // creating a mapping fails (storage error)
}

func (p *c06Mappings) CreatePortMapping(mp *models.PortMapping) (*models.PortMapping, error) {
	verif_Yield()
	if p.slow > 0 {
		time.Sleep(p.slow)
	}
	if p.fail {
		return nil, errors.New("c06: mapping store unavailable")
	}
	p.nextID++
	c := *mp
	c.ID = fmt.Sprintf("pmap_%d", p.nextID)
	p.m[c.ID] = &c
	return &c, nil
}
func (p *c06Mappings) GetPortMapping(id string) (*models.PortMapping, error) {
	verif_Yield()
	if mp, ok := p.m[id]; ok {
		return mp, nil
	}
	return nil, errors.New("not found")
}
func (p *c06Mappings) UpdatePortMapping(mp *models.PortMapping) error {
	verif_Yield()
	p.m[mp.ID] = mp
	return nil
}
func (p *c06Mappings) DeletePortMapping(id string) error                      { verif_Yield(); delete(p.m, id); return nil }
func (p *c06Mappings) UpdatePortMappingStats(id string, st interface{}) error { return nil }

type c06MapRepo struct {
	repos.IPortMappingRepository
	p *c06Mappings
}

func (r *c06MapRepo) GetClientPortMappings(clientID string) ([]*models.PortMapping, error) {
	verif_Yield()
	var out []*models.PortMapping
	for _, mp := range r.p.m {
		if fmt.Sprintf("%d", mp.ListenClientID) == clientID {
			out = append(out, mp)
		}
	}
	return out, nil
}

type c06World struct {
	st   *c06Store
	maps *c06Mappings
	svc  *Service
	repo *repos.ConnectionCodeRepository
	now  int64
}

func newC06World(ctx context.Context) *c06World {
	w := &c06World{st: &c06Store{Storage: memory.New(ctx)}, maps: &c06Mappings{m: map[string]*models.PortMapping{}}, now: int64(1) << 60}
	verif_ClockSet(w.now)
	w.repo = repos.NewConnectionCodeRepository(repos.NewRepository(w.st))
	w.svc = &Service{connCodeRepo: w.repo, portMappingService: w.maps, portMappingRepo: &c06MapRepo{p: w.maps},
		maxActiveCodesPerClient: 10, maxActiveMappingsPerClient: 50}
	return w
}

// secondNode gives the world a second service instance as a second server node has it: with
// tiered storage every node has its own node-local cache over the one shared cache (here the
// yielding store), otherwise both nodes talk to the same store.
func (w *c06World) secondNode(ctx context.Context, tiered bool) *Service {
	var st1, st2 storage.Storage = w.st, w.st
	if tiered {
		st1 = hybrid.NewWithSharedCache(ctx, memory.New(ctx), w.st, nil, hybrid.DefaultConfig())
		st2 = hybrid.NewWithSharedCache(ctx, memory.New(ctx), w.st, nil, hybrid.DefaultConfig())
		w.repo = repos.NewConnectionCodeRepository(repos.NewRepository(st1))
		w.svc = &Service{connCodeRepo: w.repo, portMappingService: w.maps, portMappingRepo: &c06MapRepo{p: w.maps},
			maxActiveCodesPerClient: 10, maxActiveMappingsPerClient: 50}
	}
	return &Service{connCodeRepo: repos.NewConnectionCodeRepository(repos.NewRepository(st2)), portMappingService: w.maps,
		portMappingRepo: &c06MapRepo{p: w.maps}, maxActiveCodesPerClient: 10, maxActiveMappingsPerClient: 50}
}

func (w *c06World) createCode(ttl time.Duration) *models.TunnelConnectionCode {
	now := time.Now()
	c := &models.TunnelConnectionCode{ID: "conncode_1", Code: "abc-def-ghi", TargetClientID: 3001, TargetAddress: "tcp://10.0.0.5:3306",
		ActivationTTL: ttl, MappingDuration: time.Hour, CreatedAt: now, ActivationExpiresAt: now.Add(ttl), CreatedBy: "t"}
	verif_Assert("C06.setup.create", w.repo.Create(c) == nil)
	return c
}

// Two clients (and optionally a revoker) act on one code at the same moment: at most one
// activation succeeds, at most one mapping exists afterwards, and it is the winner's.
func Harness_C06_activate_race() {
	ctx := context.Background()
	w := newC06World(ctx)
	// the two activations arrive at two server nodes (plain shared store, or tiered storage)
	svc2 := w.secondNode(ctx, verif_Bool())
	w.createCode(10 * time.Minute)
	var m1, m2 *models.PortMapping
	var e1, e2, e3 error
	withRevoke := verif_Bool()
	// the second activation comes from another client - or from the same one (a double submit,
	// a retry through another node)
	second := int64(2002)
	if verif_Bool() {
		second = 2001
	}
	verif_Spawn(func() {
		m1, e1 = w.svc.ActivateConnectionCode(&ActivateRequest{Code: "abc-def-ghi", ListenClientID: 2001, ListenAddress: "0.0.0.0:9001"})
	})
	verif_Spawn(func() {
		m2, e2 = svc2.ActivateConnectionCode(&ActivateRequest{Code: "abc-def-ghi", ListenClientID: second, ListenAddress: "0.0.0.0:9002"})
	})
	if withRevoke {
		verif_Spawn(func() { e3 = w.svc.RevokeConnectionCode("abc-def-ghi", "owner") })
	}
	verif_Quiesce()
	succ := 0
	if e1 == nil {
		succ++
	}
	if e2 == nil {
		succ++
	}
	verif_Assert("C06.race.at_most_one_success", succ <= 1)
	verif_Assert("C06.race.at_most_one_mapping", len(w.maps.m) <= 1)
	if succ == 1 {
		win, id := m1, int64(2001)
		if e2 == nil {
			win, id = m2, second
		}
		verif_Assert("C06.race.winner_mapping", win != nil && win.ListenClientID == id && win.TargetClientID == 3001 && win.TargetAddress == "tcp://10.0.0.5:3306")
		verif_Assert("C06.race.mapping_is_winners", len(w.maps.m) == 1 && w.maps.m[win.ID] != nil)
		verif_Cover("C06.race.one_success")
	}
	if succ == 0 {
		verif_Assert("C06.race.failed_leaves_nothing", len(w.maps.m) == 0)
	}
	if withRevoke && e3 == nil {
		// the revocation was acknowledged: the code is revoked for good - no activation racing it
		// may have turned it into a mapping (an activation that got there first makes the
		// revocation fail instead)
		verif_Assert("C06.race.revoked_code_creates_no_mapping", succ == 0 && len(w.maps.m) == 0)
		verif_Cover("C06.race.revoked")
	}
	verif_Cover("C06.race.done")
}

// Sequential orders of create / expire / revoke / activate / second activate, with one
// injected storage write failure: an expired or revoked code never creates a mapping, a
// code is used at most once, and a failed activation leaves no mapping behind.
func Harness_C06_sequential() {
	ctx := context.Background()
	w := newC06World(ctx)
	ttl := time.Duration(int64(verif_Byte())+1) * time.Second
	w.createCode(ttl)
	exp := w.now + int64(ttl)
	revoked := false
	if verif_Bool() {
		verif_Assert("C06.seq.revoke", w.svc.RevokeConnectionCode("abc-def-ghi", "owner") == nil)
		revoked = true
	}
	w.now += int64(verif_Byte()) * int64(time.Second)
	verif_ClockSet(w.now)
	verif_Assume(w.now != exp)
	expired := w.now > exp
	if verif_Bool() {
		w.st.failAt = w.st.writes + 1 + verif_Choose(3) // one of the next writes fails
		verif_Cover("C06.seq.fault")
	}
	if !expired && verif_Bool() {
		// creating the mapping is slow: the code's activation window may close while the
		// activation is under way - then the code has expired before it was used, and no mapping
		// may come of it
		w.maps.slow = time.Duration(int64(verif_Byte())+1) * time.Second
		verif_Assume(w.now+int64(w.maps.slow) != exp)
		if w.now+int64(w.maps.slow) > exp {
			expired = true
			verif_Cover("C06.seq.expired_during_activation")
		}
	}
	m, err := w.svc.ActivateConnectionCode(&ActivateRequest{Code: "abc-def-ghi", ListenClientID: 2001, ListenAddress: "0.0.0.0:9001"})
	w.maps.slow = 0
	if expired || revoked {
		verif_Assert("C06.seq.refused", err != nil && m == nil)
		verif_Assert("C06.seq.refused_no_mapping", len(w.maps.m) == 0)
		if expired {
			verif_Cover("C06.seq.expired")
		}
	} else if err != nil {
		verif_Assert("C06.seq.failure_leaves_nothing", len(w.maps.m) == 0)
	} else {
		verif_Assert("C06.seq.created", m != nil && len(w.maps.m) == 1 && m.ListenClientID == 2001 && m.TargetClientID == 3001)
	}
	w.st.failAt = 0
	// a second activation by someone else never creates a second mapping
	before := len(w.maps.m)
	_, err2 := w.svc.ActivateConnectionCode(&ActivateRequest{Code: "abc-def-ghi", ListenClientID: 2002, ListenAddress: "0.0.0.0:9002"})
	if err == nil {
		verif_Assert("C06.seq.second_refused", err2 != nil && len(w.maps.m) == before)
	}
	verif_Assert("C06.seq.at_most_one", len(w.maps.m) <= 1)
	verif_Cover("C06.seq.done")
}

// Two codes issued through the real CreateConnectionCode for two different targets, with a code
// generator whose alphabet is so small that the second draw repeats the first: issuing never hands
// out a code that is still live (it draws again, or fails cleanly), so activating a code always
// yields a mapping to the client the code was issued for - never to the holder of a younger code
// that happens to spell the same.
func Harness_C06_two_codes() {
	verif_UseTapeRandom()
	ctx := context.Background()
	w := newC06World(ctx)
	w.svc.generator = NewGenerator(&models.ConnectionCodeGenerator{SegmentLength: 1, SegmentCount: 1, Separator: "-", Charset: "ab"})
	c1, e1 := w.svc.CreateConnectionCode(&CreateRequest{TargetClientID: 3001, TargetAddress: "tcp://10.0.0.5:3306", ActivationTTL: time.Hour, MappingDuration: time.Hour, CreatedBy: "t"})
	verif_Assert("C06.two.first_issued", e1 == nil && c1 != nil && c1.Code != "")
	c2, e2 := w.svc.CreateConnectionCode(&CreateRequest{TargetClientID: 3002, TargetAddress: "tcp://10.0.0.6:22", ActivationTTL: time.Hour, MappingDuration: time.Hour, CreatedBy: "t"})
	if e2 == nil {
		verif_Assert("C06.two.codes_differ", c2 != nil && c2.Code != c1.Code)
		verif_Cover("C06.two.second_issued")
	} else {
		verif_Cover("C06.two.second_refused")
	}
	m, err := w.svc.ActivateConnectionCode(&ActivateRequest{Code: c1.Code, ListenClientID: 2001, ListenAddress: "0.0.0.0:9001"})
	verif_Assert("C06.two.first_activates", err == nil && m != nil)
	verif_Assert("C06.two.mapping_is_the_codes_own", m.TargetClientID == 3001 && m.TargetAddress == "tcp://10.0.0.5:3306" && m.ListenClientID == 2001)
	verif_Assert("C06.two.one_mapping", len(w.maps.m) == 1)
	if e2 == nil {
		m2, err2 := w.svc.ActivateConnectionCode(&ActivateRequest{Code: c2.Code, ListenClientID: 2002, ListenAddress: "0.0.0.0:9002"})
		verif_Assert("C06.two.second_activates", err2 == nil && m2 != nil && m2.TargetClientID == 3002 && m2.ListenClientID == 2002)
		verif_Assert("C06.two.two_mappings", len(w.maps.m) == 2)
	}
	verif_Cover("C06.two.done")
}
