package crossnode

// C10 harnesses: frame codec round trip, decoder safety, tunnel-id injectivity.

func Harness_C10_roundtrip() {
	var id [16]byte
	for i := range id {
		id[i] = verif_Byte()
	}
	typ := verif_Byte()
	n := verif_IntRange(0, verif_Bound("payload"))
	data := verif_Bytes(n)
	w := &verifSink{}
	err := WriteFrameToWriter(w, id, typ, data)
	verif_Assert("C10.enc.ok", err == nil)
	verif_Assert("C10.enc.len", len(w.Buf) == FrameHeaderSize+n)
	r := &verifReader{Data: w.Buf, Cuts: verif_Bound("cuts")}
	gid, gtyp, gdata, rerr := ReadFrameFromReader(r)
	verif_Assert("C10.rt.noerr", rerr == nil)
	verif_Assert("C10.rt.id", gid == id)
	verif_Assert("C10.rt.type", gtyp == typ)
	verif_Assert("C10.rt.data", verif_BytesEq(gdata, data))
	verif_Assert("C10.rt.consumed", r.Pos == len(r.Data))
	verif_Cover("C10.rt.reached")
}

// Arbitrary bytes fed to the decoder: a frame or an error, never a panic, never an
// allocation above MaxFrameSize, and on success exactly header+length bytes consumed.
func Harness_C10_decoder() {
	verif_AllocLimit(MaxFrameSize)
	var hdr [FrameHeaderSize]byte
	for i := range hdr {
		hdr[i] = verif_Byte()
	}
	nb := verif_IntRange(0, verif_Bound("body"))
	body := verif_Bytes(nb)
	stream := append(append([]byte{}, hdr[:]...), body...)
	cut := verif_IntRange(0, len(stream))
	stream = stream[:cut]
	r := &verifReader{Data: stream, Cuts: verif_Bound("cuts")}
	id, typ, data, err := ReadFrameFromReader(r)
	if err == nil {
		length := int(hdr[17])<<24 | int(hdr[18])<<16 | int(hdr[19])<<8 | int(hdr[20])
		verif_Assert("C10.dec.len", len(data) == length)
		verif_Assert("C10.dec.limit", length <= MaxFrameSize)
		verif_Assert("C10.dec.consumed", r.Pos == FrameHeaderSize+length)
		verif_Assert("C10.dec.type", typ == hdr[16])
		var want [16]byte
		copy(want[:], hdr[:16])
		verif_Assert("C10.dec.id", id == want)
		verif_Assert("C10.dec.data", verif_BytesEq(data, stream[FrameHeaderSize:FrameHeaderSize+length]))
		verif_Cover("C10.dec.frame")
	} else {
		verif_Assert("C10.dec.nodata", data == nil || len(data) <= MaxFrameSize)
		verif_Cover("C10.dec.error")
	}
}

// Tunnel ids are strings; frames carry 16 bytes. Two different valid ids (no NUL
// bytes, non-empty) must not map to the same wire id.
func Harness_C10_tunnelid() {
	max := verif_Bound("idlen")
	n1 := verif_IntRange(1, max)
	n2 := verif_IntRange(1, max)
	b1 := verif_Bytes(n1)
	b2 := verif_Bytes(n2)
	for _, c := range b1 {
		verif_Assume(c != 0)
	}
	for _, c := range b2 {
		verif_Assume(c != 0)
	}
	s1, s2 := string(b1), string(b2)
	w1, _ := TunnelIDFromString(s1)
	w2, _ := TunnelIDFromString(s2)
	verif_Known("C10-tunnelid-truncation", n1 > 16 || n2 > 16)
	verif_Assert("C10.id.injective", verif_Implies(w1 == w2, verif_StrEq(s1, s2)))
	if n1 <= 16 {
		verif_Assert("C10.id.roundtrip", verif_StrEq(TunnelIDToString(w1), s1))
	}
	verif_Cover("C10.id.reached")
}
