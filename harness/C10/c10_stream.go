package crossnode

import (
	"errors"
	"io"
)

// FrameStream.Read over an arbitrary sequence of incoming frames: the bytes
// delivered are exactly the payloads of this tunnel's Data frames up to its first
// EOF/Close frame, then io.EOF forever; nothing from foreign tunnels or unknown types.
func Harness_C10_stream_read() {
	var own [16]byte
	for i := range own {
		own[i] = verif_Byte()
	}
	k := verif_IntRange(0, verif_Bound("frames"))
	wire := &verifSink{}
	var want []byte
	ended := false
	for i := 0; i < k; i++ {
		id := own
		foreign := verif_Bool()
		if foreign {
			for j := range id {
				id[j] = verif_Byte()
			}
			verif_Assume(id != own)
		}
		typ := verif_Byte()
		n := verif_IntRange(0, verif_Bound("payload"))
		data := verif_Bytes(n)
		verif_Assert("C10.sr.encode", WriteFrameToWriter(wire, id, typ, data) == nil)
		if foreign || ended {
			continue
		}
		switch typ {
		case FrameTypeData:
			want = append(want, data...)
		case FrameTypeEOF, FrameTypeClose:
			ended = true
		}
	}
	in := &verifReader{Data: wire.Buf, Cuts: verif_Bound("cuts")}
	tcp := verif_TCPConn(in, &verifSink{})
	fs := NewFrameStream(&Conn{tcpConn: tcp}, own)
	var got []byte
	sawEOF := false
	for r := 0; r < verif_Bound("reads"); r++ {
		bs := verif_IntRange(1, verif_Bound("bufsize"))
		p := make([]byte, bs)
		n, err := fs.Read(p)
		verif_Assert("C10.sr.count", n >= 0 && n <= bs)
		got = append(got, p[:n]...)
		if err != nil {
			verif_Assert("C10.sr.err_is_eof", err == io.EOF && n == 0)
			sawEOF = true
			break
		}
		verif_Assert("C10.sr.progress", n > 0)
	}
	verif_Assert("C10.sr.prefix", len(got) <= len(want) && verif_BytesEq(got, want[:len(got)]))
	if sawEOF {
		verif_Assert("C10.sr.complete", len(got) == len(want))
		n, err := fs.Read(make([]byte, 4))
		verif_Assert("C10.sr.eof_sticky", n == 0 && err == io.EOF)
		verif_Cover("C10.sr.eof")
	}
	if len(want) > 0 && len(got) == len(want) {
		verif_Cover("C10.sr.data")
	}
}

// FrameStream.Write with sizes around the frame limit: the frames written tile p in
// order, each at most MaxFrameSize, all Data frames of this tunnel; Write reports
// len(p); after CloseWrite an EOF frame follows and further writes fail.
func Harness_C10_stream_write() {
	var own [16]byte
	for i := range own {
		own[i] = verif_Byte()
	}
	// frame-size seams and the buffer-size boundaries a writer may special-case (4/8/32 KiB, with
	// and without room for the 21-byte frame header)
	sizes := []int{0, 1, 4096 - 21, 4096 - 20, 4095, 4096, 4097, 8192, 32768 - 21, 32768, MaxFrameSize - 21, MaxFrameSize - 1, MaxFrameSize, MaxFrameSize + 1, 2 * MaxFrameSize, 2*MaxFrameSize + 3}
	n := sizes[verif_Choose(len(sizes))]
	p := make([]byte, n)
	for i := range p {
		p[i] = byte(i*7 + i>>8)
	}
	// symbolic bytes at the places where segmentation bugs show: ends and frame seams
	for _, pos := range []int{0, 1, MaxFrameSize - 1, MaxFrameSize, MaxFrameSize + 1, 2*MaxFrameSize - 1, 2 * MaxFrameSize, n - 1} {
		if pos >= 0 && pos < n {
			p[pos] = verif_Byte()
		}
	}
	out := &verifSink{}
	tcp := verif_TCPConn(&verifReader{}, out)
	fs := NewFrameStream(&Conn{tcpConn: tcp}, own)
	wn, err := fs.Write(p)
	verif_Assert("C10.sw.ok", err == nil && wn == n)
	verif_Assert("C10.sw.closewrite", fs.CloseWrite() == nil)
	_, werr := fs.Write([]byte{1})
	verif_Assert("C10.sw.after_close", werr != nil)
	verif_TCPSync()
	rd := &verifReader{Data: out.Buf}
	off := 0
	for {
		id, typ, data, rerr := ReadFrameFromReader(rd)
		verif_Assert("C10.sw.decodes", rerr == nil)
		verif_Assert("C10.sw.id", id == own)
		if typ == FrameTypeEOF {
			verif_Assert("C10.sw.eof_empty", len(data) == 0)
			break
		}
		verif_Assert("C10.sw.type", typ == FrameTypeData)
		verif_Assert("C10.sw.framesize", len(data) > 0 && len(data) <= MaxFrameSize)
		verif_Assert("C10.sw.tiles", off+len(data) <= n && verif_BytesEq(data, p[off:off+len(data)]))
		off += len(data)
	}
	verif_Assert("C10.sw.all", off == n)
	verif_Assert("C10.sw.nothing_after", rd.Pos == len(rd.Data))
	if n > MaxFrameSize {
		verif_Cover("C10.sw.multi")
	}
	verif_Cover("C10.sw.done")
}

// Frames larger than the reader's buffer (and larger than the buffer sizes a reader might
// special-case) read back in pieces: several data frames of boundary sizes, read with a fixed
// buffer size; every byte arrives once and in order, then EOF.
func Harness_C10_stream_read_large() {
	var own [16]byte
	for i := range own {
		own[i] = byte('a' + i)
	}
	sizes := []int{4097, 5000, 8192, 33000, MaxFrameSize}
	n1 := sizes[verif_Choose(len(sizes))]
	n2 := []int{1, 4096, 5123}[verif_Choose(3)]
	bs := []int{1000, 4096, 32 * 1024}[verif_Choose(3)]
	mk := func(n int, seed byte) []byte {
		d := make([]byte, n)
		for i := range d {
			d[i] = byte(i)*3 + seed
		}
		d[0], d[n-1] = verif_Byte(), verif_Byte()
		return d
	}
	d1, d2 := mk(n1, 1), mk(n2, 7)
	wire := &verifSink{}
	verif_Assert("C10.srl.encode", WriteFrameToWriter(wire, own, FrameTypeData, d1) == nil && WriteFrameToWriter(wire, own, FrameTypeData, d2) == nil &&
		WriteFrameToWriter(wire, own, FrameTypeEOF, nil) == nil)
	want := append(append([]byte{}, d1...), d2...)
	tcp := verif_TCPConn(&verifReader{Data: wire.Buf}, &verifSink{})
	fs := NewFrameStream(&Conn{tcpConn: tcp}, own)
	var got []byte
	p := make([]byte, bs)
	for r := 0; r < 200; r++ {
		n, err := fs.Read(p)
		got = append(got, p[:n]...)
		if err != nil {
			verif_Assert("C10.srl.err_is_eof", err == io.EOF)
			break
		}
		verif_Assert("C10.srl.progress", n > 0)
	}
	verif_Assert("C10.srl.length", len(got) == len(want))
	verif_Assert("C10.srl.content", verif_BytesEq(got, want))
	verif_Cover("C10.srl.done")
}

// A pooled connection carries one tunnel after the other: everything tunnel A sent up to its
// end-of-stream frame goes to A's stream, and the stream created for tunnel B on the same
// connection afterwards gets exactly B's bytes - also when B's frames were already waiting in the
// socket while A was still being read (all frames are on the wire before the first read).
func Harness_C10_sequential_streams() {
	var a, b [16]byte
	for i := range a {
		a[i] = byte('a' + i)
		b[i] = byte('A' + i)
	}
	wire := &verifSink{}
	na := verif_IntRange(0, verif_Bound("payload"))
	da := verif_Bytes(na)
	nb := verif_IntRange(1, verif_Bound("payload"))
	db := verif_Bytes(nb)
	endA := []byte{FrameTypeEOF, FrameTypeClose}[verif_Choose(2)]
	ok := true
	if na > 0 {
		ok = WriteFrameToWriter(wire, a, FrameTypeData, da) == nil
	}
	ok = ok && WriteFrameToWriter(wire, a, endA, nil) == nil
	ok = ok && WriteFrameToWriter(wire, b, FrameTypeData, db) == nil && WriteFrameToWriter(wire, b, FrameTypeEOF, nil) == nil
	verif_Assert("C10.seq.encode", ok)
	tcp := verif_TCPConn(&verifReader{Data: wire.Buf}, &verifSink{})
	conn := &Conn{tcpConn: tcp}
	read := func(fs *FrameStream) []byte {
		var got []byte
		p := make([]byte, 8)
		for r := 0; r < 8; r++ {
			n, err := fs.Read(p)
			got = append(got, p[:n]...)
			if err != nil {
				verif_Assert("C10.seq.err_is_eof", err == io.EOF)
				break
			}
		}
		return got
	}
	gotA := read(NewFrameStream(conn, a))
	verif_Assert("C10.seq.first_tunnel", len(gotA) == na && verif_BytesEq(gotA, da))
	gotB := read(NewFrameStream(conn, b))
	verif_Assert("C10.seq.second_tunnel_complete", len(gotB) == nb)
	verif_Assert("C10.seq.second_tunnel_bytes", verif_BytesEq(gotB, db))
	verif_Cover("C10.seq.done")
}

var errC10Open = errors.New("c10: no more bytes, the connection stays open")

// Both directions of one tunnel over one connection, closed one after the other: end A sends its
// bytes and closes; end B reads them up to end-of-stream, then sends its own bytes and closes; A,
// which may still read after its own Close, gets B's bytes and then end-of-stream - it is not
// left waiting (a hang is reported under the label "deadlock"; natively the watchdog).
func Harness_C10_duplex_close() {
	var id [16]byte
	for i := range id {
		id[i] = byte('k' + i)
	}
	na, nb := verif_IntRange(0, verif_Bound("payload")), verif_IntRange(0, verif_Bound("payload"))
	da, db := verif_Bytes(na), verif_Bytes(nb)
	inA, outA := &verifReader{Err: errC10Open}, &verifSink{}
	inB, outB := &verifReader{Err: errC10Open}, &verifSink{}
	ta, tb := verif_TCPPair(inA, outA, inB, outB)
	a, b := NewFrameStream(&Conn{tcpConn: ta}, id), NewFrameStream(&Conn{tcpConn: tb}, id)
	halfFirst := verif_Bool() // A half-closes (CloseWrite) or closes
	if na > 0 {
		n, err := a.Write(da)
		verif_Assert("C10.dx.a_write", err == nil && n == na)
	}
	if halfFirst {
		verif_Assert("C10.dx.a_closewrite", a.CloseWrite() == nil)
	} else {
		verif_Assert("C10.dx.a_close", a.Close() == nil)
	}
	inB.Data = outA.Buf
	read := func(fs *FrameStream, want []byte, who string) {
		var got []byte
		p := make([]byte, 8)
		for r := 0; r < 8; r++ {
			n, err := fs.Read(p)
			got = append(got, p[:n]...)
			if err != nil {
				verif_Assert("deadlock", err == io.EOF) // anything else: the reader is still waiting for an end that never comes
				break
			}
		}
		verif_Assert("C10.dx."+who+"_got_all", len(got) == len(want) && verif_BytesEq(got, want))
	}
	read(b, da, "b")
	if nb > 0 {
		n, err := b.Write(db)
		verif_Assert("C10.dx.b_write", err == nil && n == nb)
	}
	verif_Assert("C10.dx.b_close", b.Close() == nil)
	inA.Data = outB.Buf
	read(a, db, "a")
	verif_Cover("C10.dx.done")
}

// Two tunnels write through one cross-node connection at the same moment (each write call on the
// connection is one step on the wire; a gathered write of header and payload is one step too):
// every frame is on the wire in one piece, so the peer decodes exactly the two tunnels' frames -
// no tunnel's payload is ever preceded by the other's header. (Engine only: the interleaving of
// two native writers cannot be forced.)
func Harness_C10_concurrent_tunnels() {
	var a, b [16]byte
	for i := range a {
		a[i] = byte('a' + i)
		b[i] = byte('A' + i)
	}
	da := verif_Bytes(verif_IntRange(1, verif_Bound("payload")))
	db := verif_Bytes(verif_IntRange(1, verif_Bound("payload")))
	out := &verifSink{}
	tcp := verif_TCPConn(&verifReader{}, out)
	conn := &Conn{tcpConn: tcp}
	fa, fb := NewFrameStream(conn, a), NewFrameStream(conn, b)
	var ea, eb error
	verif_Spawn(func() { _, ea = fa.Write(da) })
	verif_Spawn(func() { _, eb = fb.Write(db) })
	verif_Quiesce()
	verif_Assert("C10.cc.writes_ok", ea == nil && eb == nil)
	verif_TCPSync()
	rd := &verifReader{Data: out.Buf}
	sawA, sawB := false, false
	for k := 0; k < 2; k++ {
		id, typ, data, err := ReadFrameFromReader(rd)
		verif_Assert("C10.cc.frame_decodes", err == nil && typ == FrameTypeData)
		if id == a {
			verif_Assert("C10.cc.tunnel_a_intact", !sawA && len(data) == len(da) && verif_BytesEq(data, da))
			sawA = true
		} else {
			verif_Assert("C10.cc.tunnel_b_intact", id == b && !sawB && len(data) == len(db) && verif_BytesEq(data, db))
			sawB = true
		}
	}
	verif_Assert("C10.cc.nothing_else", sawA && sawB && rd.Pos == len(rd.Data))
	verif_Cover("C10.cc.done")
}
