package session

import (
	"io"
	"net"
	"sync"
	"sync/atomic"
	"time"
)

// c10Local is the local application's connection as the forwarder sees it: it uploads a scripted
// sequence of chunks, each after a scripted pause (an application that is still sending while the
// peer has already finished), then reports EOF; everything written to it is recorded. Once closed,
// reads fail as on a real socket.
type c10Local struct {
	mu       sync.Mutex
	chunks   [][]byte
	pauses   []time.Duration
	ci       int
	got      []byte
	isClosed bool
	closeN   int
}

func (l *c10Local) Read(p []byte) (int, error) {
	l.mu.Lock()
	if l.isClosed {
		l.mu.Unlock()
		return 0, net.ErrClosed
	}
	if l.ci >= len(l.chunks) {
		l.mu.Unlock()
		return 0, io.EOF
	}
	ch, d := l.chunks[l.ci], l.pauses[l.ci]
	l.ci++
	l.mu.Unlock()
	if d > 0 {
		time.Sleep(d)
	}
	l.mu.Lock()
	defer l.mu.Unlock()
	if l.isClosed {
		return 0, net.ErrClosed
	}
	return copy(p, ch), nil
}
func (l *c10Local) Write(p []byte) (int, error) {
	l.mu.Lock()
	defer l.mu.Unlock()
	if l.isClosed {
		return 0, net.ErrClosed
	}
	l.got = append(l.got, p...)
	return len(p), nil
}
func (l *c10Local) Close() error {
	l.mu.Lock()
	defer l.mu.Unlock()
	l.isClosed = true
	l.closeN++
	return nil
}

// c10LocalHC is a local connection that also supports half-close (a TCP socket).
type c10LocalHC struct {
	*c10Local
	halfClosed bool
}

func (l *c10LocalHC) CloseWrite() error { l.halfClosed = true; return nil }

// c10Plain hides everything but Read/Write (a reader/writer wrapper; closing goes through
// LocalConnCloser).
type c10Plain struct{ l *c10Local }

func (w c10Plain) Read(p []byte) (int, error)  { return w.l.Read(p) }
func (w c10Plain) Write(p []byte) (int, error) { return w.l.Write(p) }

// c10Remote is the cross-node stream: the peer's bytes arrive in scripted pieces, then - after a
// scripted pause - its end-of-stream; what the forwarder writes is recorded together with the
// position of the half-close.
type c10Remote struct {
	mu        sync.Mutex
	in        []byte
	cut       int
	pos       int
	eofPause  time.Duration
	out       []byte
	halfAt    int // len(out) at CloseWrite, -1: none
	halfN     int
	isClosed  bool
	closeN    int
	lateWrite bool // a write arrived after the half-close or the close
}

func (r *c10Remote) Read(p []byte) (int, error) {
	r.mu.Lock()
	if r.isClosed {
		r.mu.Unlock()
		return 0, net.ErrClosed
	}
	if r.pos < len(r.in) {
		k := len(r.in) - r.pos
		if r.cut > 0 && r.cut < k {
			k = r.cut
		}
		n := copy(p, r.in[r.pos:r.pos+k])
		r.pos += n
		r.mu.Unlock()
		return n, nil
	}
	d := r.eofPause
	r.mu.Unlock()
	if d > 0 {
		time.Sleep(d)
	}
	return 0, io.EOF
}
func (r *c10Remote) Write(p []byte) (int, error) {
	r.mu.Lock()
	defer r.mu.Unlock()
	if r.isClosed || r.halfAt >= 0 {
		r.lateWrite = true
		return 0, net.ErrClosed
	}
	r.out = append(r.out, p...)
	return len(p), nil
}
func (r *c10Remote) CloseWrite() error {
	r.mu.Lock()
	defer r.mu.Unlock()
	if r.halfAt < 0 {
		r.halfAt = len(r.out)
	}
	r.halfN++
	return nil
}
func (r *c10Remote) Close() error {
	r.mu.Lock()
	defer r.mu.Unlock()
	r.isClosed = true
	r.closeN++
	return nil
}

// The half-close aware forwarder between a local connection and a cross-node stream: whatever the
// order in which the two directions finish - the peer first while the local application is still
// sending, or the other way round - every byte the application uploaded reaches the stream before
// its end-of-stream, every byte of the peer reaches the application, the traffic counters say so,
// and both connections are closed when the forwarder returns. Local connections with and without
// half-close support, wrapped for counting or not.
func Harness_C10_forwarder() {
	verif_ClockSet(int64(1) << 60)
	nUp := verif_IntRange(0, 2)
	loc := &c10Local{}
	var wantUp []byte
	for i := 0; i < nUp; i++ {
		ch := verif_Bytes(verif_IntRange(1, verif_Bound("payload")))
		loc.chunks = append(loc.chunks, ch)
		loc.pauses = append(loc.pauses, time.Duration(verif_Choose(2))*time.Second)
		wantUp = append(wantUp, ch...)
	}
	down := verif_Bytes(verif_IntRange(0, verif_Bound("payload")))
	rem := &c10Remote{in: down, cut: verif_IntRange(0, 2), halfAt: -1, eofPause: time.Duration(verif_Choose(2)) * 3 * time.Second / 2}
	cfg := &BidirectionalForwardConfig{TunnelID: "t", RemoteConn: rem}
	switch verif_Choose(3) {
	case 0:
		cfg.LocalConn = &c10LocalHC{c10Local: loc}
		verif_Cover("C10.fw.local_half_closer")
	case 1:
		cfg.LocalConn = loc
		verif_Cover("C10.fw.local_closer")
	default:
		cfg.LocalConn = c10Plain{l: loc}
		cfg.LocalConnCloser = loc
		verif_Cover("C10.fw.local_wrapped")
	}
	var sent, recv atomic.Int64
	counted := verif_Bool()
	if counted {
		cfg.BytesSentCounter, cfg.BytesReceivedCounter = &sent, &recv
	}
	if nUp > 0 && loc.pauses[nUp-1] > 0 && rem.eofPause == 0 {
		verif_Cover("C10.fw.peer_finishes_first")
	}
	if rem.eofPause > 0 {
		verif_Cover("C10.fw.local_finishes_first")
	}
	runBidirectionalForward(cfg)
	verif_Assert("C10.fw.upload_complete", len(rem.out) == len(wantUp))
	verif_Assert("C10.fw.upload_bytes", verif_BytesEq(rem.out, wantUp))
	verif_Assert("C10.fw.end_of_stream_after_all_bytes", !rem.lateWrite && (rem.halfAt < 0 || rem.halfAt == len(wantUp)))
	verif_Assert("C10.fw.end_of_stream_sent", rem.halfN >= 1 || rem.closeN >= 1)
	verif_Assert("C10.fw.download_complete", len(loc.got) == len(down) && verif_BytesEq(loc.got, down))
	verif_Assert("C10.fw.both_closed", rem.isClosed && loc.isClosed)
	if counted {
		verif_Assert("C10.fw.counters", sent.Load() == int64(len(wantUp)) && recv.Load() == int64(len(down)))
	}
	verif_Cover("C10.fw.done")
}
