package session

import (
	"context"
	"fmt"
	"time"

	"tunnox-core/internal/packet"
	"tunnox-core/internal/stream"
)

type c07Conn struct {
	id       string
	open     bool
	client   int64 // id of the last successful handshake on this connection, 0 if none
	zombie   bool  // re-registered under the same id: the record in the registry is a fresh unauthenticated one
	tunnel   bool  // authenticated as a tunnel connection: no further control traffic on it in this history
	released bool  // closed by its own disconnect or by the stale sweep (both call CloseConnection); a kicked or
	// superseded connection is only evicted from the registry with its stream closed - its read loop,
	// which is not part of this harness, then notices and releases the rest
	sp *stream.StreamProcessor
}

// For every history of connects, handshakes (incl. re-authentication and duplicate
// logins), kicks, heartbeat time-outs and disconnects, a lookup by client id returns
// nothing or a live authenticated connection of exactly that client, and a closed or
// evicted connection is gone from every lookup with its transport closed.
func Harness_C07_histories() {
	ctx := context.Background()
	now := int64(1) << 60
	verif_ClockSet(now)
	verif_AnyOrder(true)
	clients := []int64{1001, 1002}
	auth := &vsAuth{ok: map[int64]bool{1001: true, 1002: true}}
	sm := vsNewNode(ctx, "node-A", nil, auth, nil)
	var conns []*c07Conn
	n := verif_Bound("events")
	for i := 0; i < n; i++ {
		now += int64(verif_Byte()) * int64(time.Second)
		verif_ClockSet(now)
		switch verif_Choose(8) {
		case 0: // a transport connection arrives
			if len(conns) >= 3 {
				continue
			}
			c := &c07Conn{id: fmt.Sprintf("c%d", len(conns)), open: true}
			tc, _ := vsOpenConn(ctx, sm, c.id)
			c.sp = tc.Stream.(*stream.StreamProcessor)
			conns = append(conns, c)
		case 1: // handshake on an open connection as one of the clients
			if len(conns) == 0 {
				continue
			}
			c := conns[verif_Choose(len(conns))]
			if !c.open || c.zombie || c.tunnel {
				continue
			}
			if verif_Bool() {
				// a login the auth handler refuses (unknown client): the connection stays what it was -
				// possibly a registered control connection that never authenticated
				vsHandshake(sm, c.id, &packet.HandshakeRequest{ClientID: 1003, ConnectionType: "control", Protocol: "tcp"})
				verif_Assert("C07.handshake.refused_not_indexed", sm.GetControlConnectionByClientID(1003) == nil)
				verif_Cover("C07.refused_login")
				break
			}
			id := clients[verif_Choose(2)]
			if c.client == 0 && verif_Bool() {
				// the client's second connection: it authenticates as a TUNNEL connection - the
				// client's control connection (if any) stays what every lookup returns
				before := sm.GetControlConnectionByClientID(id)
				err := vsHandshake(sm, c.id, &packet.HandshakeRequest{ClientID: id, ConnectionType: "tunnel", Protocol: "tcp"})
				verif_Assert("C07.tunnel_handshake.ok", err == nil)
				verif_Assert("C07.tunnel_handshake.control_index_untouched", sm.GetControlConnectionByClientID(id) == before)
				c.tunnel = true
				verif_Cover("C07.tunnel_handshake")
				break
			}
			err := vsHandshake(sm, c.id, &packet.HandshakeRequest{ClientID: id, ConnectionType: "control", Protocol: "tcp"})
			verif_Assert("C07.handshake.ok", err == nil)
			if c.client != 0 && c.client != id {
				verif_Cover("C07.reauth")
			}
			// a duplicate login evicts the client's previous connection
			for _, o := range conns {
				if o != c && o.client == id {
					o.client = 0
					o.open = false
				}
			}
			c.client = id
		case 2: // the connection is closed
			if len(conns) == 0 {
				continue
			}
			c := conns[verif_Choose(len(conns))]
			if !c.open || c.zombie {
				continue
			}
			before := sm.clientRegistry.Count()
			had := sm.clientRegistry.GetByConnID(c.id) != nil
			sm.CloseConnection(c.id)
			c.open = false
			c.client = 0
			c.released = true
			if had {
				verif_Assert("C07.close.count", sm.clientRegistry.Count() == before-1)
			}
			verif_Cover("C07.closed")
		case 3: // heartbeat on an open connection
			if len(conns) == 0 {
				continue
			}
			c := conns[verif_Choose(len(conns))]
			if c.open && !c.zombie && !c.tunnel {
				vsHeartbeat(sm, c.id)
			}
		case 5: // kick: whoever holds the client's slot is evicted in favour of a named connection
			if len(conns) == 0 {
				continue
			}
			id := clients[verif_Choose(2)]
			k := verif_Choose(len(conns) + 1)
			newID := "unknown-conn"
			if k < len(conns) {
				newID = conns[k].id
			}
			sm.KickOldControlConnection(id, newID)
			for _, o := range conns {
				if o.client == id && o.id != newID {
					o.client = 0
					o.open = false
				}
			}
			verif_Cover("C07.kick")
		case 6: // a control-connection record is registered again under an id the registry already
			// knows (as the handshake path does with a fresh record around the same stream): the
			// previous record is evicted - and with it the stream they share
			if len(conns) == 0 {
				continue
			}
			c := conns[verif_Choose(len(conns))]
			if !c.open || c.zombie || sm.clientRegistry.GetByConnID(c.id) == nil {
				continue
			}
			sm.RegisterControlConnection(NewControlConnection(c.id, c.sp, nil, "tcp"))
			c.client = 0
			c.zombie = true // no further traffic on it in this history; lookups must not return the evicted record
			verif_Cover("C07.reregistered")
		case 7: // a control connection is handed over to tunnel use (TunnelOpen on the same connection):
			// its record leaves the registry, the transport stays open - and no lookup returns it any more
			if len(conns) == 0 {
				continue
			}
			c := conns[verif_Choose(len(conns))]
			if !c.open || c.zombie || c.tunnel || sm.clientRegistry.GetByConnID(c.id) == nil {
				continue
			}
			sm.clientRegistry.Unregister(c.id)
			verif_Assert("C07.handover.transport_stays_open", !c.sp.IsClosed())
			c.client = 0
			c.tunnel = true
			verif_Cover("C07.handover")
		case 4: // periodic stale-connection sweep
			had := map[string]bool{}
			for _, c := range conns {
				had[c.id] = sm.clientRegistry.GetByConnID(c.id) != nil
			}
			sm.cleanupStaleConnections()
			for _, c := range conns {
				// swept: authenticated or not (a control connection that never logged in, or whose
				// login was refused, times out too)
				if c.open && !c.zombie && had[c.id] && sm.clientRegistry.GetByConnID(c.id) == nil {
					c.open = false
					c.client = 0
					c.released = true
					verif_Cover("C07.swept")
				}
			}
		}
		// ---- invariant after every event -------------------------------------------
		for _, id := range clients {
			cc := sm.GetControlConnectionByClientID(id)
			if cc == nil {
				continue
			}
			verif_Known("C07-reauth-stale-index", cc.ClientID != id)
			verif_Assert("C07.lookup.belongs", cc.Authenticated && cc.ClientID == id)
			verif_Assert("C07.lookup.registered", sm.clientRegistry.GetByConnID(cc.ConnID) == cc)
			if sp, ok := cc.Stream.(*stream.StreamProcessor); ok {
				verif_Assert("C07.lookup.live", !sp.IsClosed())
			}
		}
		for _, c := range conns {
			if !c.open {
				// counts return to what they were: the session's own connection table forgets it too
				if c.released {
					verif_Assert("C07.gone.base_connection", sm.getConnectionByConnID(c.id) == nil)
				}
				verif_Assert("C07.gone.byconn", sm.clientRegistry.GetByConnID(c.id) == nil)
				for _, id := range clients {
					cc := sm.GetControlConnectionByClientID(id)
					verif_Assert("C07.gone.byclient", cc == nil || cc.ConnID != c.id)
				}
				verif_Assert("C07.gone.transport_closed", c.sp.IsClosed())
			}
		}
	}
	verif_Cover("C07.done")
}

// c07Stream is a transport double that only records whether it was closed.
type c07Stream struct {
	stream.PackageStreamer
	closed bool
}

func (s *c07Stream) Close() { s.closed = true }

// Concurrent executions: two registry operations - the stale sweep, a (late or repeated)
// handshake, a disconnect, a kick, a re-registration - run at the same time over two connections,
// with the registry's lock operations as scheduling points. Afterwards a lookup by client id still
// returns nothing or a registered, authenticated connection of exactly that client whose transport
// is open, and the counts agree.
func Harness_C07_registry_races() {
	now := int64(1) << 60
	verif_ClockSet(now)
	reg := NewClientRegistry(&ClientRegistryConfig{})
	s0, s1 := &c07Stream{}, &c07Stream{}
	c0 := NewControlConnection("c0", s0, nil, "tcp")
	c1 := NewControlConnection("c1", s1, nil, "tcp")
	verif_Assert("C07.race.setup.reg", reg.Register(c0) == nil && reg.Register(c1) == nil)
	if verif_Bool() {
		verif_Assert("C07.race.setup.auth", reg.UpdateAuth("c1", 1001, "") == nil)
	}
	now += 100 * int64(time.Second) // both connections have been idle past the heartbeat timeout
	verif_ClockSet(now)
	if verif_Bool() {
		c1.UpdateActivity()
	}
	timeout := 60 * time.Second
	conns := []string{"c0", "c1"}
	clients := []int64{1001, 1002}
	op := func() func() {
		switch verif_Choose(5) {
		case 0:
			return func() { reg.CleanupStale(timeout, nil) }
		case 1:
			id, cl := conns[verif_Choose(2)], clients[verif_Choose(2)]
			return func() { reg.UpdateAuth(id, cl, "") }
		case 2:
			id := conns[verif_Choose(2)]
			return func() { reg.Remove(id) }
		case 3:
			cl, id := clients[verif_Choose(2)], conns[verif_Choose(2)]
			return func() { reg.KickOldConnection(cl, id, nil) }
		default:
			id := conns[verif_Choose(2)]
			return func() { reg.Register(NewControlConnection(id, &c07Stream{}, nil, "tcp")) }
		}
	}
	a, b := op(), op()
	verif_Spawn(a)
	verif_Spawn(b)
	verif_Quiesce()
	for _, id := range clients {
		cc := reg.GetByClientID(id)
		if cc == nil {
			continue
		}
		verif_Assert("C07.race.lookup.belongs", cc.Authenticated && cc.ClientID == id)
		verif_Assert("C07.race.lookup.registered", reg.GetByConnID(cc.ConnID) == cc)
		if st, ok := cc.Stream.(*c07Stream); ok {
			verif_Assert("C07.race.lookup.live", !st.closed)
		}
		verif_Cover("C07.race.lookup_found")
	}
	verif_Assert("C07.race.counts", reg.Count() == len(reg.List()))
	verif_Cover("C07.race.done")
}

// c07Named is a transport that names its own connection id (websocket, tunnel TCP connections).
type c07Named struct {
	verifConn
	id string
}

func (c *c07Named) GetConnectionID() string { return c.id }

// Connects through the real CreateConnection by transports that name their own ids, also an id
// that is still live (a reconnect racing the old connection's teardown, or a peer reusing an id):
// the late connect is refused and changes nothing - the live connection stays known, can log in,
// and its close closes its transport; counts go back to what they were; a closed id can be used
// again.
func Harness_C07_named_connects() {
	ctx := context.Background()
	verif_ClockSet(int64(1) << 60)
	auth := &vsAuth{ok: map[int64]bool{1001: true}}
	sm := vsNewNode(ctx, "node-A", nil, auth, nil)
	sm.streamFactory = stream.NewDefaultStreamFactory(ctx)
	sm.streamMgr = stream.NewStreamManager(sm.streamFactory, ctx)
	ids := []string{"w1", "w2"}
	live := map[string]*c07Named{}
	var all []*c07Named
	n := verif_Bound("events")
	for i := 0; i < n; i++ {
		id := ids[verif_Choose(2)]
		switch verif_Choose(3) {
		case 0: // a connect naming this id
			rw := &c07Named{verifConn: verifConn{In: &verifReader{}, Out: &verifSink{}}, id: id}
			all = append(all, rw)
			before := c07ConnCount(sm)
			c, err := sm.CreateConnection(rw, rw)
			if live[id] == nil {
				verif_Assert("C07.named.fresh_id_accepted", err == nil && c != nil && c.ID == id)
				live[id] = rw
			} else {
				verif_Assert("C07.named.live_id_refused", err != nil)
				verif_Assert("C07.named.refusal_changes_nothing", c07ConnCount(sm) == before)
				verif_Cover("C07.named.duplicate_refused")
			}
		case 1: // the live connection with this id logs in
			if live[id] == nil {
				continue
			}
			err := vsHandshake(sm, id, &packet.HandshakeRequest{ClientID: 1001, ConnectionType: "control", Protocol: "tcp"})
			verif_Assert("C07.named.login_ok", err == nil)
			cc := sm.GetControlConnectionByClientID(1001)
			verif_Assert("C07.named.login_indexed", cc != nil && cc.ConnID == id)
			// a duplicate login evicted the other connection's record; its transport closes with it
			for o, rw := range live {
				if o != id && sm.clientRegistry.GetByConnID(o) == nil && rw.Closed {
					_ = sm.CloseConnection(o)
					delete(live, o)
				}
			}
		case 2: // the connection is closed
			if live[id] == nil {
				continue
			}
			before := c07ConnCount(sm)
			_ = sm.CloseConnection(id)
			verif_Assert("C07.named.close_closes_transport", live[id].Closed)
			verif_Assert("C07.named.close_count", c07ConnCount(sm) == before-1)
			delete(live, id)
			verif_Cover("C07.named.closed")
		}
		for _, id := range ids {
			c, ok := sm.GetConnection(id)
			if live[id] != nil {
				verif_Assert("C07.named.live_connection_known", ok && c != nil && c.ID == id)
				verif_Assert("C07.named.live_transport_open", !live[id].Closed)
			} else {
				verif_Assert("C07.named.closed_connection_unknown", !ok)
				_, inStreams := sm.streamMgr.GetStream(id)
				verif_Assert("C07.named.closed_stream_forgotten", !inStreams)
			}
		}
		verif_Assert("C07.named.count", c07ConnCount(sm) == len(live))
		verif_Assert("C07.named.stream_count", sm.streamMgr.GetStreamCount() == len(live))
	}
	verif_Cover("C07.named.done")
}

func c07ConnCount(sm *SessionManager) int {
	sm.connLock.RLock()
	defer sm.connLock.RUnlock()
	return len(sm.connMap)
}
