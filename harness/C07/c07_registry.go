package session

import (
	"context"
	"fmt"
	"time"

	"tunnox-core/internal/packet"
	"tunnox-core/internal/stream"
)

type c07Conn struct {
	id     string
	open   bool
	client int64 // id of the last successful handshake on this connection, 0 if none
	zombie bool  // re-registered under the same id: the record in the registry is a fresh unauthenticated one
	sp     *stream.StreamProcessor
}

// For every history of connects, handshakes (incl. re-authentication and duplicate
// logins), kicks, heartbeat time-outs and disconnects, a lookup by client id returns
// nothing or a live authenticated connection of exactly that client, and a closed or
// evicted connection is gone from every lookup with its transport closed.
func Harness_C07_histories() {
	ctx := context.Background()
	now := int64(1) << 60
	verif_ClockSet(now)
	verif_AnyOrder(true)
	clients := []int64{1001, 1002}
	auth := &vsAuth{ok: map[int64]bool{1001: true, 1002: true}}
	sm := vsNewNode(ctx, "node-A", nil, auth, nil)
	var conns []*c07Conn
	n := verif_Bound("events")
	for i := 0; i < n; i++ {
		now += int64(verif_Byte()) * int64(time.Second)
		verif_ClockSet(now)
		switch verif_Choose(7) {
		case 0: // a transport connection arrives
			if len(conns) >= 3 {
				continue
			}
			c := &c07Conn{id: fmt.Sprintf("c%d", len(conns)), open: true}
			tc, _ := vsOpenConn(ctx, sm, c.id)
			c.sp = tc.Stream.(*stream.StreamProcessor)
			conns = append(conns, c)
		case 1: // handshake on an open connection as one of the clients
			if len(conns) == 0 {
				continue
			}
			c := conns[verif_Choose(len(conns))]
			if !c.open || c.zombie {
				continue
			}
			id := clients[verif_Choose(2)]
			err := vsHandshake(sm, c.id, &packet.HandshakeRequest{ClientID: id, ConnectionType: "control", Protocol: "tcp"})
			verif_Assert("C07.handshake.ok", err == nil)
			if c.client != 0 && c.client != id {
				verif_Cover("C07.reauth")
			}
			// a duplicate login evicts the client's previous connection
			for _, o := range conns {
				if o != c && o.client == id {
					o.client = 0
					o.open = false
				}
			}
			c.client = id
		case 2: // the connection is closed
			if len(conns) == 0 {
				continue
			}
			c := conns[verif_Choose(len(conns))]
			if !c.open || c.zombie {
				continue
			}
			before := sm.clientRegistry.Count()
			had := sm.clientRegistry.GetByConnID(c.id) != nil
			sm.CloseConnection(c.id)
			c.open = false
			c.client = 0
			if had {
				verif_Assert("C07.close.count", sm.clientRegistry.Count() == before-1)
			}
			verif_Cover("C07.closed")
		case 3: // heartbeat on an open connection
			if len(conns) == 0 {
				continue
			}
			c := conns[verif_Choose(len(conns))]
			if c.open && !c.zombie {
				vsHeartbeat(sm, c.id)
			}
		case 5: // kick: whoever holds the client's slot is evicted in favour of a named connection
			if len(conns) == 0 {
				continue
			}
			id := clients[verif_Choose(2)]
			k := verif_Choose(len(conns) + 1)
			newID := "unknown-conn"
			if k < len(conns) {
				newID = conns[k].id
			}
			sm.KickOldControlConnection(id, newID)
			for _, o := range conns {
				if o.client == id && o.id != newID {
					o.client = 0
					o.open = false
				}
			}
			verif_Cover("C07.kick")
		case 6: // a control-connection record is registered again under an id the registry already
			// knows (as the handshake path does with a fresh record around the same stream): the
			// previous record is evicted - and with it the stream they share
			if len(conns) == 0 {
				continue
			}
			c := conns[verif_Choose(len(conns))]
			if !c.open || c.zombie || sm.clientRegistry.GetByConnID(c.id) == nil {
				continue
			}
			sm.RegisterControlConnection(NewControlConnection(c.id, c.sp, nil, "tcp"))
			c.client = 0
			c.zombie = true // no further traffic on it in this history; lookups must not return the evicted record
			verif_Cover("C07.reregistered")
		case 4: // periodic stale-connection sweep
			sm.cleanupStaleConnections()
			for _, c := range conns {
				if c.open && !c.zombie && sm.clientRegistry.GetByConnID(c.id) == nil && c.client != 0 {
					c.open = false
					c.client = 0
				}
			}
		}
		// ---- invariant after every event -------------------------------------------
		for _, id := range clients {
			cc := sm.GetControlConnectionByClientID(id)
			if cc == nil {
				continue
			}
			verif_Known("C07-reauth-stale-index", cc.ClientID != id)
			verif_Assert("C07.lookup.belongs", cc.Authenticated && cc.ClientID == id)
			verif_Assert("C07.lookup.registered", sm.clientRegistry.GetByConnID(cc.ConnID) == cc)
			if sp, ok := cc.Stream.(*stream.StreamProcessor); ok {
				verif_Assert("C07.lookup.live", !sp.IsClosed())
			}
		}
		for _, c := range conns {
			if !c.open {
				verif_Assert("C07.gone.byconn", sm.clientRegistry.GetByConnID(c.id) == nil)
				for _, id := range clients {
					cc := sm.GetControlConnectionByClientID(id)
					verif_Assert("C07.gone.byclient", cc == nil || cc.ConnID != c.id)
				}
				verif_Assert("C07.gone.transport_closed", c.sp.IsClosed())
			}
		}
	}
	verif_Cover("C07.done")
}
