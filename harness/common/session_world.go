package session

// Shared scaffolding for session-level harnesses: a SessionManager assembled from its
// real parts (no background goroutines), real StreamProcessors over model sinks, and a
// stub AuthHandler where authentication itself is not the subject.

import (
	"context"
	"encoding/json"
	"time"

	"tunnox-core/internal/core/dispose"
	"tunnox-core/internal/core/storage"
	"tunnox-core/internal/core/types"
	"tunnox-core/internal/packet"
	"tunnox-core/internal/stream"
)

// vsAuth accepts every handshake that names a positive client id listed in ok.
type vsAuth struct {
	ok map[int64]bool
}

func (a *vsAuth) HandleHandshake(conn ControlConnectionInterface, req *packet.HandshakeRequest) (*packet.HandshakeResponse, error) {
	if req.ClientID <= 0 || !a.ok[req.ClientID] {
		return &packet.HandshakeResponse{Success: false, Error: "unknown client"}, nil
	}
	conn.SetClientID(req.ClientID)
	conn.SetAuthenticated(true)
	return &packet.HandshakeResponse{Success: true, ClientID: req.ClientID}, nil
}

func (a *vsAuth) GetClientConfig(conn ControlConnectionInterface) (string, error) { return "{}", nil }

func vsNewNode(ctx context.Context, nodeID string, st storage.Storage, auth AuthHandler, cfg *SessionConfig) *SessionManager {
	if cfg == nil {
		cfg = DefaultSessionConfig()
	}
	sm := &SessionManager{
		clientRegistry: NewClientRegistry(&ClientRegistryConfig{MaxConnections: cfg.MaxControlConnections}),
		tunnelRegistry: NewTunnelRegistry(&TunnelRegistryConfig{}),
		connMap:        make(map[string]*types.Connection),
		tunnelBridges:  make(map[string]*TunnelBridge),
		closedTunnels:  make(map[string]time.Time),
		config:         cfg,
		nodeID:         nodeID,
		authHandler:    auth,
		ManagerBase:    dispose.NewManager("SessionManager", ctx),
	}
	sm.commandResponseMgr = NewCommandResponseManager()
	if st != nil {
		sm.connStateStore = NewConnectionStateStore(st, nodeID, 0)
	}
	return sm
}

// vsOpenConn registers a transport connection with a real StreamProcessor writing to a sink.
func vsOpenConn(ctx context.Context, sm *SessionManager, id string) (*types.Connection, *verifSink) {
	out := &verifSink{}
	sp := stream.NewStreamProcessor(&verifReader{}, out, ctx)
	c := &types.Connection{ID: id, Stream: sp, Protocol: "tcp", CreatedAt: time.Now(), UpdatedAt: time.Now(), LastHeartbeat: time.Now()}
	sm.connLock.Lock()
	sm.connMap[id] = c
	sm.connLock.Unlock()
	return c, out
}

func vsHandshake(sm *SessionManager, connID string, req *packet.HandshakeRequest) error {
	payload, _ := json.Marshal(req)
	return sm.handleHandshake(&types.StreamPacket{ConnectionID: connID, Timestamp: time.Now(),
		Packet: &packet.TransferPacket{PacketType: packet.Handshake, Payload: payload}})
}

func vsHeartbeat(sm *SessionManager, connID string) error {
	return sm.handleHeartbeat(&types.StreamPacket{ConnectionID: connID, Timestamp: time.Now(),
		Packet: &packet.TransferPacket{PacketType: packet.Heartbeat}})
}
