package server

import (
	"context"
	"encoding/json"
	"errors"
	"time"

	"tunnox-core/internal/cloud/models"
	"tunnox-core/internal/cloud/repos"
	"tunnox-core/internal/cloud/services/conncode"
	"tunnox-core/internal/cloud/stats"
	"tunnox-core/internal/core/storage/memory"
	"tunnox-core/internal/core/types"
	"tunnox-core/internal/packet"
	"tunnox-core/internal/protocol/session"
	"tunnox-core/internal/stream"
)

const (
	c04Listen   = int64(1001)
	c04Target   = int64(1002)
	c04Stranger = int64(1003)
)

// stub authentication (C03 covers the real one)
type c04Auth struct{}

func (c04Auth) HandleHandshake(conn session.ControlConnectionInterface, req *packet.HandshakeRequest) (*packet.HandshakeResponse, error) {
	conn.SetClientID(req.ClientID)
	conn.SetAuthenticated(true)
	return &packet.HandshakeResponse{Success: true, ClientID: req.ClientID}, nil
}
func (c04Auth) GetClientConfig(conn session.ControlConnectionInterface) (string, error) { return "{}", nil }

// one store of mappings behind both cloud-control views
type c04Maps struct {
	m map[string]*models.PortMapping
}

func (c *c04Maps) GetPortMapping(id string) (*models.PortMapping, error) {
	if mp, ok := c.m[id]; ok {
		return mp, nil
	}
	return nil, errors.New("mapping not found")
}
func (c *c04Maps) CreatePortMapping(mp *models.PortMapping) (*models.PortMapping, error) { return mp, nil }
func (c *c04Maps) UpdatePortMapping(mp *models.PortMapping) error                         { return nil }
func (c *c04Maps) DeletePortMapping(id string) error                                      { return nil }
func (c *c04Maps) UpdatePortMappingStats(id string, st interface{}) error                 { return nil }

// session-side cloud control
type c04SessCloud struct{ *c04Maps }

func (c c04SessCloud) UpdatePortMappingStats(id string, st *stats.TrafficStats) error { return nil }
func (c c04SessCloud) GetClientPortMappings(id int64) ([]*models.PortMapping, error)  { return nil, nil }
func (c c04SessCloud) TouchClient(id int64)                                           {}
func (c c04SessCloud) DisconnectClient(id int64) error                                { return nil }
func (c c04SessCloud) DisconnectClientIfMatch(id int64, n, cn string) (bool, error)   { return false, nil }
func (c c04SessCloud) EnsureClientOnline(id int64, n, cn, ip, p, v string) error      { return nil }

// handler-side cloud control
type c04Cloud struct {
	c03Cloud
	maps *c04Maps
}

func (c *c04Cloud) GetPortMapping(id string) (*models.PortMapping, error) { return c.maps.GetPortMapping(id) }

type c04World struct {
	ctx  context.Context
	sm   *session.SessionManager
	maps *c04Maps
	n    int
}

func (w *c04World) newConn(client int64) (*c03RW, string) {
	w.n++
	id := "k" + string(rune('0'+w.n))
	rw := &c03RW{verifConn: verifConn{In: &verifReader{}, Out: &verifSink{}}, id: id, ip: []byte{10, 0, 0, byte(w.n)}}
	_, err := w.sm.CreateConnection(rw, rw)
	verif_Assert("C04.setup.conn", err == nil)
	if client != 0 {
		payload, _ := json.Marshal(&packet.HandshakeRequest{ClientID: client, ConnectionType: "tunnel"})
		herr := w.sm.HandlePacket(&types.StreamPacket{ConnectionID: id, Timestamp: time.Now(), Packet: &packet.TransferPacket{PacketType: packet.Handshake, Payload: payload}})
		verif_Assert("C04.setup.handshake", herr == nil)
	}
	return rw, id
}

// open sends a TunnelOpen request and returns the acknowledgement the server wrote (nil if none)
func (w *c04World) open(rw *c03RW, id string, req *packet.TunnelOpenRequest) *packet.TunnelOpenAckResponse {
	before := len(rw.Out.Buf)
	payload, _ := json.Marshal(req)
	w.sm.HandlePacket(&types.StreamPacket{ConnectionID: id, Timestamp: time.Now(), Packet: &packet.TransferPacket{PacketType: packet.TunnelOpen, Payload: payload}})
	out := rw.Out.Buf[before:]
	if len(out) == 0 {
		return nil
	}
	rd := stream.NewStreamProcessor(&verifReader{Data: out}, nil, w.ctx)
	var last *packet.TunnelOpenAckResponse
	for {
		pkt, _, err := rd.ReadPacket()
		if err != nil {
			break
		}
		if pkt.PacketType&0x3F == packet.TunnelOpenAck {
			ack := &packet.TunnelOpenAckResponse{}
			verif_Assert("C04.ack.json", json.Unmarshal(pkt.Payload, ack) == nil)
			last = ack
		}
	}
	return last
}

var c04NotActive = []models.MappingStatus{models.MappingStatusInactive, models.MappingStatusError, "", "paused"}

// One tunnel-open request from every combination of identity, credential, mapping state
// and tunnel state: an attachment (success acknowledgement / bridge membership / cross-node
// forward) happens only for an authenticated connection entitled to the mapping.
func Harness_C04_tunnel_open() {
	verif_ClockSet(int64(1) << 60)
	ctx, stop := context.WithCancel(context.Background())
	w := &c04World{ctx: ctx, maps: &c04Maps{m: map[string]*models.PortMapping{}}}
	w.sm = session.NewSessionManager(nil, ctx)
	defer func() { w.sm.Close(); stop() }()
	w.sm.SetNodeID("node-A")
	w.sm.SetAuthHandler(c04Auth{})
	w.sm.SetCloudControl(c04SessCloud{w.maps})
	mem := memory.New(ctx)
	svc := conncode.NewService(repos.NewConnectionCodeRepository(repos.NewRepository(mem)), w.maps, nil, nil, ctx)
	w.sm.SetTunnelHandler(NewServerTunnelHandler(&c04Cloud{maps: w.maps}, svc))
	routing := session.NewTunnelRoutingTable(mem, time.Minute)
	w.sm.SetTunnelRoutingTable(routing)

	// ---- mapping state ---------------------------------------------------------------
	future := time.Now().Add(time.Hour)
	past := time.Now().Add(-time.Hour)
	mp := &models.PortMapping{ID: "pm1", ListenClientID: c04Listen, TargetClientID: c04Target, SecretKey: "k1", Status: models.MappingStatusActive, ExpiresAt: &future,
		TargetHost: "127.0.0.1", TargetPort: 80, Protocol: models.ProtocolTCP}
	// mappings created by activating a connection code carry no secret at all: then no presented
	// secret is the right one
	noSecret := verif_Bool()
	if noSecret {
		mp.SecretKey = ""
	}
	mstate := verif_Choose(5)
	switch mstate {
	case 1:
		mp.IsRevoked = true
	case 2:
		mp.ExpiresAt = &past
	case 3: // any status other than active: switched off, failed, never set, unknown to this build
		mp.Status = c04NotActive[verif_Choose(len(c04NotActive))]
	}
	if mstate != 4 {
		w.maps.m["pm1"] = mp
	}
	mappingValid := mstate == 0

	// ---- tunnel state at arrival ---------------------------------------------------------
	tstate := verif_Choose(4)
	switch tstate {
	case 1, 3: // a bridge already waits on this node: created earlier by the legitimate source
		// (the mapping was valid at that time)
		saved := w.maps.m["pm1"]
		good := *mp
		good.IsRevoked, good.Status, good.ExpiresAt = false, models.MappingStatusActive, &future
		w.maps.m["pm1"] = &good
		src, sid := w.newConn(c04Listen)
		ack := w.open(src, sid, &packet.TunnelOpenRequest{MappingID: "pm1", TunnelID: "tun-1"})
		verif_Assert("C04.setup.source_attached", ack != nil && ack.Success)
		if tstate == 3 { // ... and is already served: the legitimate target joined too
			dst, did := w.newConn(c04Target)
			ack := w.open(dst, did, &packet.TunnelOpenRequest{MappingID: "pm1", TunnelID: "tun-1", SecretKey: "k1"})
			verif_Assert("C04.setup.target_attached", ack != nil && ack.Success)
		}
		if saved == nil {
			delete(w.maps.m, "pm1")
		} else {
			w.maps.m["pm1"] = saved
		}
	case 2: // the tunnel waits on another node
		verif_Assert("C04.setup.routing", routing.RegisterWaitingTunnel(ctx, &session.TunnelWaitingState{TunnelID: "tun-1", MappingID: "pm1", SourceNodeID: "node-B", SourceClientID: c04Listen, TargetClientID: c04Target}) == nil)
	}

	// ---- the request(s) under test ---------------------------------------------------------
	// a second request (thorough tier) arrives in whatever state the first one left behind
	nreq := 1
	if verif_Bound("requests") > 1 {
		nreq = verif_Bound("requests")
	}
	bridgeNow := tstate == 1 || tstate == 3 // a bridge for tun-1 exists on this node
	for r := 0; r < nreq; r++ {
		who := []int64{0, c04Listen, c04Target, c04Stranger}[verif_Choose(4)]
		cred := verif_Choose(5) // 0 mapping id only, 1 right secret, 2 wrong secret, 3 nothing, 4 resume token
		req := &packet.TunnelOpenRequest{TunnelID: "tun-1"}
		switch cred {
		case 0:
			req.MappingID = "pm1"
		case 1:
			req.MappingID, req.SecretKey = "pm1", "k1"
		case 2: // any other secret of 1-3 characters - also one that merely starts with the right one
			n := verif_IntRange(1, 3)
			b := verif_Bytes(n)
			for _, c := range b {
				verif_Assume((c >= 'a' && c <= 'z') || (c >= '0' && c <= '9'))
			}
			verif_Assume(!(n == 2 && b[0] == 'k' && b[1] == '1'))
			req.MappingID, req.SecretKey = "pm1", string(b)
		case 4: // no resume token was ever issued, so none is valid
			req.MappingID, req.SecretKey, req.ResumeToken = "pm1", "k1", "resume-token"
		}
		// tunnel state as this request finds it
		rw, id := w.newConn(who)
		ack := w.open(rw, id, req)

		authorised := who != 0 && mappingValid &&
			((cred == 0 && who == c04Listen) || (cred == 1 && !noSecret && (who == c04Listen || who == c04Target)))
		attached := w.sm.GetTunnelBridgeByConnectionID(id) != nil
		acked := ack != nil && ack.Success
		// the branches that join an existing bridge / a tunnel waiting on another node require an
		// authenticated connection but check neither the credential nor the mapping (known findings)
		verif_Known("C04-existing-bridge-no-entitlement-check", bridgeNow && who != 0)
		verif_Known("C04-cross-node-no-entitlement-check", !bridgeNow && tstate == 2 && who != 0)
		verif_Assert("C04.attach_only_if_authorised", verif_Implies(attached || acked, authorised))
		if !authorised {
			verif_Assert("C04.refused_gets_failure_ack", ack != nil && !ack.Success)
			verif_Cover("C04.refused")
		}
		if attached {
			verif_Cover("C04.attached")
			bridgeNow = true
		}
	}
	verif_Cover("C04.done")
}

// The mapping loses its validity between two tunnel opens of its own listening client: the
// first open (valid mapping) is served, then the mapping is revoked / expires / is deactivated /
// is deleted, and shortly afterwards the same client opens another tunnel with the same
// credential. The second open must be refused - whatever the first one left behind.
func Harness_C04_revoke_between() {
	verif_ClockSet(int64(1) << 60)
	ctx, stop := context.WithCancel(context.Background())
	w := &c04World{ctx: ctx, maps: &c04Maps{m: map[string]*models.PortMapping{}}}
	w.sm = session.NewSessionManager(nil, ctx)
	defer func() { w.sm.Close(); stop() }()
	w.sm.SetNodeID("node-A")
	w.sm.SetAuthHandler(c04Auth{})
	w.sm.SetCloudControl(c04SessCloud{w.maps})
	mem := memory.New(ctx)
	svc := conncode.NewService(repos.NewConnectionCodeRepository(repos.NewRepository(mem)), w.maps, nil, nil, ctx)
	w.sm.SetTunnelHandler(NewServerTunnelHandler(&c04Cloud{maps: w.maps}, svc))
	future := time.Now().Add(time.Hour)
	mp := &models.PortMapping{ID: "pm1", ListenClientID: c04Listen, TargetClientID: c04Target, SecretKey: "k1", Status: models.MappingStatusActive, ExpiresAt: &future,
		TargetHost: "127.0.0.1", TargetPort: 80, Protocol: models.ProtocolTCP}
	w.maps.m["pm1"] = mp

	secret := verif_Bool() // the credential: mapping id only, or mapping id + secret
	who := c04Listen
	if secret && verif_Bool() {
		who = c04Target
	}
	mk := func(tid string) *packet.TunnelOpenRequest {
		r := &packet.TunnelOpenRequest{TunnelID: tid, MappingID: "pm1"}
		if secret {
			r.SecretKey = "k1"
		}
		return r
	}
	rw1, id1 := w.newConn(who)
	ack1 := w.open(rw1, id1, mk("tun-1"))
	verif_Assert("C04.rb.first_served", ack1 != nil && ack1.Success)

	// the mapping stops being valid
	past := time.Now().Add(-time.Second)
	switch verif_Choose(4) {
	case 0:
		cp := *mp
		cp.IsRevoked = true
		w.maps.m["pm1"] = &cp
	case 1:
		cp := *mp
		cp.ExpiresAt = &past
		w.maps.m["pm1"] = &cp
	case 2:
		cp := *mp
		cp.Status = c04NotActive[verif_Choose(len(c04NotActive))]
		w.maps.m["pm1"] = &cp
	case 3:
		delete(w.maps.m, "pm1")
	}
	// a moment later (0 .. 25.5 s)
	verif_ClockSet(int64(1)<<60 + int64(verif_Byte())*int64(100*time.Millisecond))
	rw2, id2 := w.newConn(who)
	ack2 := w.open(rw2, id2, mk("tun-2"))
	verif_Assert("C04.rb.second_refused", ack2 != nil && !ack2.Success)
	verif_Assert("C04.rb.second_not_attached", w.sm.GetTunnelBridgeByConnectionID(id2) == nil)
	verif_Cover("C04.rb.done")
}
