package memory

import (
	"context"
	"time"

	"tunnox-core/internal/cloud/constants"
	"tunnox-core/internal/core/storage/types"
)

// ---- concurrent callers: every pair of operations is linearizable -----------------------------

type c13Op struct {
	kind   int
	v, old int64
	d      int64
	ttl    time.Duration
}

// c13Out is what the caller of one operation observes.
type c13Out struct {
	ok  bool
	n   int64
	err int // 0 nil, 1 key not found, 2 invalid type, 3 anything else
	val any
}

func c13Err(err error) int {
	switch err {
	case nil:
		return 0
	case types.ErrKeyNotFound:
		return 1
	case types.ErrInvalidType:
		return 2
	}
	return 3
}

const c13NOps = 15

// c13Do runs operation o on the real store.
func c13Do(s *Storage, k string, o c13Op) (r c13Out) {
	switch o.kind {
	case 0:
		r.err = c13Err(s.Set(k, o.v, o.ttl))
	case 1:
		r.err = c13Err(s.Delete(k))
	case 2:
		ok, err := s.SetNX(k, o.v, o.ttl)
		r.ok, r.err = ok, c13Err(err)
	case 3:
		ok, err := s.CompareAndSwap(k, o.old, o.v, o.ttl)
		r.ok, r.err = ok, c13Err(err)
	case 4:
		n, err := s.IncrBy(k, o.d)
		r.n, r.err = n, c13Err(err)
	case 5:
		r.err = c13Err(s.AppendToList(k, o.v))
	case 6:
		r.err = c13Err(s.SetHash(k, "f", o.v))
	case 7:
		v, err := s.Get(k)
		r.val, r.err = v, c13Err(err)
	case 8:
		r.err = c13Err(s.CleanupExpired())
	case 9:
		ok, err := s.Exists(k)
		r.ok, r.err = ok, c13Err(err)
	case 10:
		v, err := s.GetHash(k, "f")
		r.val, r.err = v, c13Err(err)
	case 11: // only whether the key counts as present is compared
		_, err := s.GetExpiration(k)
		r.err = c13Err(err)
	case 12:
		l, err := s.GetList(k)
		if err == nil {
			r.val = l
		}
		r.err = c13Err(err)
	case 13:
		r.err = c13Err(s.RemoveFromList(k, o.v))
	case 14:
		r.err = c13Err(s.DeleteHash(k, "f"))
	}
	return r
}

func c13Clone(it *c13Item) *c13Item {
	if it == nil {
		return nil
	}
	c := &c13Item{exp: it.exp}
	switch x := it.val.(type) {
	case []any:
		c.val = append([]any{}, x...)
	case map[string]any:
		m := map[string]any{}
		for k, v := range x {
			m[k] = v
		}
		c.val = m
	default:
		c.val = x
	}
	return c
}

// c13RefDo is the sequential map with expiry: it applies o at instant now to the item stored for
// the key (nil: none) and returns what the caller sees and the item stored afterwards.
func c13RefDo(st *c13Item, now int64, o c13Op) (c13Out, *c13Item) {
	var r c13Out
	live := st
	if st != nil && st.exp != 0 && now > st.exp {
		live = nil
	}
	switch o.kind {
	case 0:
		return r, &c13Item{val: o.v, exp: c13Exp(now, o.ttl)}
	case 1:
		return r, nil
	case 2:
		if live == nil {
			r.ok = true
			return r, &c13Item{val: o.v, exp: c13Exp(now, o.ttl)}
		}
		return r, live
	case 3:
		if live != nil {
			if cur, isInt := live.val.(int64); isInt && cur == o.old {
				r.ok = true
				return r, &c13Item{val: o.v, exp: c13Exp(now, o.ttl)}
			}
		}
		return r, live
	case 4:
		if live == nil {
			live = &c13Item{val: int64(0), exp: now + int64(constants.DefaultDataTTL)}
		}
		cur, isInt := live.val.(int64)
		if !isInt {
			r.err = 2
			return r, live
		}
		live.val = cur + o.d
		r.n = cur + o.d
		return r, live
	case 5:
		if live == nil {
			return r, &c13Item{val: []any{o.v}, exp: now + int64(constants.DefaultDataTTL)}
		}
		l, isL := live.val.([]any)
		if !isL {
			r.err = 2
			return r, live
		}
		live.val = append(append([]any{}, l...), o.v)
		return r, live
	case 6:
		if live == nil {
			return r, &c13Item{val: map[string]any{"f": o.v}, exp: now + int64(constants.DefaultDataTTL)}
		}
		if h, isH := live.val.(map[string]any); isH {
			h["f"] = o.v
		} else {
			live.val = map[string]any{"f": o.v}
		}
		return r, live
	case 7:
		if live == nil {
			r.err = 1
			return r, live
		}
		r.val = live.val
		return r, live
	case 8:
		return r, live
	case 9:
		r.ok = live != nil
		return r, live
	case 10:
		if live == nil {
			r.err = 1
			return r, live
		}
		h, isH := live.val.(map[string]any)
		if !isH {
			r.err = 2
			return r, live
		}
		if hv, ok := h["f"]; ok {
			r.val = hv
		} else {
			r.err = 1
		}
		return r, live
	case 11:
		if live == nil {
			r.err = 1
		}
		return r, live
	case 12:
		if live == nil {
			r.err = 1
			return r, live
		}
		l, isL := live.val.([]any)
		if !isL {
			r.err = 2
			return r, live
		}
		r.val = l
		return r, live
	case 13:
		if live == nil {
			return r, nil
		}
		l, isL := live.val.([]any)
		if !isL {
			r.err = 2
			return r, live
		}
		nl := []any{}
		for _, x := range l {
			if !c13Same(x, o.v) {
				nl = append(nl, x)
			}
		}
		live.val = nl
		return r, live
	case 14:
		if live == nil {
			return r, nil
		}
		h, isH := live.val.(map[string]any)
		if !isH {
			r.err = 2
			return r, live
		}
		delete(h, "f")
		return r, live
	}
	return r, live
}

func c13OutSame(a, b c13Out) bool {
	return a.ok == b.ok && a.n == b.n && a.err == b.err && c13Same(a.val, b.val)
}

// Two callers run one operation each on the same key at the same time - the key absent, live,
// or expired and not yet swept; the store's lock operations are the scheduling points. What the
// two callers saw and what the store holds afterwards must be what the sequential map gives for
// one of the two orders.
func Harness_C13_concurrent_pairs() {
	now := c13Base
	verif_ClockSet(now)
	s := New(context.Background())
	k := "k0"
	var st *c13Item
	switch verif_Choose(5) {
	case 1: // a live counter
		st = &c13Item{val: int64(1)}
	case 2: // a counter whose lifetime is over but which the sweeper has not collected yet
		st = &c13Item{val: int64(1), exp: now + 5}
	case 3: // a live list
		st = &c13Item{val: []any{int64(1)}}
	case 4: // an expired hash
		st = &c13Item{val: map[string]any{"f": int64(1)}, exp: now + 5}
	}
	if st != nil {
		ttl := time.Duration(0)
		if st.exp != 0 {
			ttl = 5
		}
		verif_Assert("C13.conc.setup.set", s.Set(k, c13Clone(st).val, ttl) == nil)
	}
	now += 10
	verif_ClockSet(now)
	mk := func() c13Op {
		o := c13Op{kind: verif_Choose(c13NOps), v: int64(verif_IntRange(0, 3)), old: 1, d: 1}
		if o.kind == 0 || o.kind == 2 || o.kind == 3 {
			o.ttl = []time.Duration{0, time.Hour}[verif_Choose(2)]
		}
		return o
	}
	a, b := mk(), mk()
	var ra, rb c13Out
	verif_Spawn(func() { ra = c13Do(s, k, a) })
	verif_Spawn(func() { rb = c13Do(s, k, b) })
	verif_Quiesce()
	finalV, finalErr := s.Get(k)
	final := c13Out{val: finalV, err: c13Err(finalErr)}
	// order a;b
	x1, s1 := c13RefDo(c13Clone(st), now, a)
	y1, s1 := c13RefDo(s1, now, b)
	f1, _ := c13RefDo(s1, now, c13Op{kind: 7})
	ab := c13OutSame(ra, x1) && c13OutSame(rb, y1) && c13OutSame(final, f1)
	if ab {
		verif_Cover("C13.conc.done")
		return
	}
	// order b;a
	y2, s2 := c13RefDo(c13Clone(st), now, b)
	x2, s2 := c13RefDo(s2, now, a)
	f2, _ := c13RefDo(s2, now, c13Op{kind: 7})
	ba := c13OutSame(ra, x2) && c13OutSame(rb, y2) && c13OutSame(final, f2)
	verif_Assert("C13.conc.linearizable", ba)
	verif_Cover("C13.conc.other_order")
	verif_Cover("C13.conc.done")
}
