package redis

import (
	"context"
	"encoding/json"
	"strconv"
	"time"

	"github.com/alicebob/miniredis/v2"
	goredis "github.com/redis/go-redis/v9"

	"tunnox-core/internal/core/storage/memory"
)

// ---- a reference Redis for the commands the backend issues ------------------------------------
//
// Under the engine the go-redis client methods the backend calls are replaced (spec "stubs") by the
// functions below: a map with typed values and expiry that follows the documented command
// semantics. Natively the real client talks to an in-process miniredis server, so every replayed
// path also checks this model against it.

type c13rEntry struct {
	kind int // 0 string, 1 list, 2 hash
	s    string
	list []string
	hk   []string // hash fields in insertion order
	hv   []string
	exp  int64 // UnixNano, 0: no expiry
}

type c13Redis struct{ m map[string]*c13rEntry }

var c13R *c13Redis

func (r *c13Redis) live(key string) *c13rEntry {
	e := r.m[key]
	if e != nil && e.exp != 0 && time.Now().UnixNano() >= e.exp {
		delete(r.m, key)
		return nil
	}
	return e
}

func c13rStr(v interface{}) string {
	switch x := v.(type) {
	case string:
		return x
	case []byte:
		return string(x)
	case int64:
		return strconv.FormatInt(x, 10)
	case int:
		return strconv.Itoa(x)
	}
	return "?"
}

// list members are JSON texts of strings; equal texts are equal members. (Compared through their
// decoded values: under the engine a marshalled text is a tree, not bytes.)
func c13rSameMember(a, b string) bool {
	var x, y interface{}
	if json.Unmarshal([]byte(a), &x) != nil || json.Unmarshal([]byte(b), &y) != nil {
		return a == b
	}
	sx, ok1 := x.(string)
	sy, ok2 := y.(string)
	return ok1 && ok2 && sx == sy
}

func c13rExpAfter(d time.Duration) int64 {
	if d <= 0 {
		return 0
	}
	return time.Now().UnixNano() + int64(d)
}

func c13rPing(_ interface{}, ctx context.Context) *goredis.StatusCmd {
	return goredis.NewStatusResult("PONG", nil)
}
func c13rSet(_ interface{}, ctx context.Context, key string, value interface{}, expiration time.Duration) *goredis.StatusCmd {
	c13R.m[key] = &c13rEntry{s: c13rStr(value), exp: c13rExpAfter(expiration)}
	return goredis.NewStatusResult("OK", nil)
}
func c13rSetNX(_ interface{}, ctx context.Context, key string, value interface{}, expiration time.Duration) *goredis.BoolCmd {
	if c13R.live(key) != nil {
		return goredis.NewBoolResult(false, nil)
	}
	c13R.m[key] = &c13rEntry{s: c13rStr(value), exp: c13rExpAfter(expiration)}
	return goredis.NewBoolResult(true, nil)
}
func c13rGet(_ interface{}, ctx context.Context, key string) *goredis.StringCmd {
	e := c13R.live(key)
	if e == nil {
		return goredis.NewStringResult("", goredis.Nil)
	}
	return goredis.NewStringResult(e.s, nil)
}
func c13rDel(_ interface{}, ctx context.Context, keys ...string) *goredis.IntCmd {
	n := int64(0)
	for _, k := range keys {
		if c13R.live(k) != nil {
			delete(c13R.m, k)
			n++
		}
	}
	return goredis.NewIntResult(n, nil)
}
func c13rExists(_ interface{}, ctx context.Context, keys ...string) *goredis.IntCmd {
	n := int64(0)
	for _, k := range keys {
		if c13R.live(k) != nil {
			n++
		}
	}
	return goredis.NewIntResult(n, nil)
}
func c13rExpire(_ interface{}, ctx context.Context, key string, expiration time.Duration) *goredis.BoolCmd {
	e := c13R.live(key)
	if e == nil {
		return goredis.NewBoolResult(false, nil)
	}
	e.exp = time.Now().UnixNano() + int64(expiration)
	return goredis.NewBoolResult(true, nil)
}
func c13rPersist(_ interface{}, ctx context.Context, key string) *goredis.BoolCmd {
	e := c13R.live(key)
	if e == nil || e.exp == 0 {
		return goredis.NewBoolResult(false, nil)
	}
	e.exp = 0
	return goredis.NewBoolResult(true, nil)
}
func c13rTTL(_ interface{}, ctx context.Context, key string) *goredis.DurationCmd {
	e := c13R.live(key)
	if e == nil {
		return goredis.NewDurationResult(time.Duration(-2), nil)
	}
	if e.exp == 0 {
		return goredis.NewDurationResult(time.Duration(-1), nil)
	}
	// TTL answers in whole seconds; every lifetime and clock step of the harness is a whole number
	// of seconds, so what is left already is one (no division by 10^9 of a symbolic value, which no
	// solver here decides)
	return goredis.NewDurationResult(time.Duration(e.exp-time.Now().UnixNano()), nil)
}
func c13rIncrBy(_ interface{}, ctx context.Context, key string, value int64) *goredis.IntCmd {
	e := c13R.live(key)
	if e == nil {
		e = &c13rEntry{s: "0"}
		c13R.m[key] = e
	}
	cur, err := strconv.ParseInt(e.s, 10, 64)
	if err != nil {
		return goredis.NewIntResult(0, goredis.Nil)
	}
	cur += value
	e.s = strconv.FormatInt(cur, 10)
	return goredis.NewIntResult(cur, nil)
}
func c13rRPush(_ interface{}, ctx context.Context, key string, values ...interface{}) *goredis.IntCmd {
	e := c13R.live(key)
	if e == nil {
		e = &c13rEntry{kind: 1}
		c13R.m[key] = e
	}
	for _, v := range values {
		e.list = append(e.list, c13rStr(v))
	}
	return goredis.NewIntResult(int64(len(e.list)), nil)
}
func c13rLLen(_ interface{}, ctx context.Context, key string) *goredis.IntCmd {
	e := c13R.live(key)
	if e == nil {
		return goredis.NewIntResult(0, nil)
	}
	return goredis.NewIntResult(int64(len(e.list)), nil)
}
func c13rLRange(_ interface{}, ctx context.Context, key string, start, stop int64) *goredis.StringSliceCmd {
	e := c13R.live(key)
	if e == nil {
		return goredis.NewStringSliceResult([]string{}, nil)
	}
	return goredis.NewStringSliceResult(append([]string{}, e.list...), nil) // the backend only asks for 0..-1
}
func c13rLRem(_ interface{}, ctx context.Context, key string, count int64, value interface{}) *goredis.IntCmd {
	e := c13R.live(key)
	if e == nil {
		return goredis.NewIntResult(0, nil)
	}
	want := c13rStr(value)
	var keep []string
	n := int64(0)
	for _, x := range e.list {
		if c13rSameMember(x, want) {
			n++
		} else {
			keep = append(keep, x)
		}
	}
	e.list = keep
	if len(e.list) == 0 {
		delete(c13R.m, key) // an emptied list does not exist
	}
	return goredis.NewIntResult(n, nil)
}
func c13rHSet(_ interface{}, ctx context.Context, key string, values ...interface{}) *goredis.IntCmd {
	e := c13R.live(key)
	if e == nil {
		e = &c13rEntry{kind: 2}
		c13R.m[key] = e
	}
	added := int64(0)
	for i := 0; i+1 < len(values); i += 2 {
		f, v := c13rStr(values[i]), c13rStr(values[i+1])
		found := false
		for j := range e.hk {
			if e.hk[j] == f {
				e.hv[j] = v
				found = true
			}
		}
		if !found {
			e.hk = append(e.hk, f)
			e.hv = append(e.hv, v)
			added++
		}
	}
	return goredis.NewIntResult(added, nil)
}
func c13rHLen(_ interface{}, ctx context.Context, key string) *goredis.IntCmd {
	e := c13R.live(key)
	if e == nil {
		return goredis.NewIntResult(0, nil)
	}
	return goredis.NewIntResult(int64(len(e.hk)), nil)
}
func c13rHGet(_ interface{}, ctx context.Context, key, field string) *goredis.StringCmd {
	e := c13R.live(key)
	if e != nil {
		for j := range e.hk {
			if e.hk[j] == field {
				return goredis.NewStringResult(e.hv[j], nil)
			}
		}
	}
	return goredis.NewStringResult("", goredis.Nil)
}
func c13rHGetAll(_ interface{}, ctx context.Context, key string) *goredis.MapStringStringCmd {
	out := map[string]string{}
	if e := c13R.live(key); e != nil {
		for j := range e.hk {
			out[e.hk[j]] = e.hv[j]
		}
	}
	return goredis.NewMapStringStringResult(out, nil)
}
func c13rHDel(_ interface{}, ctx context.Context, key string, fields ...string) *goredis.IntCmd {
	e := c13R.live(key)
	n := int64(0)
	if e != nil {
		for _, f := range fields {
			for j := range e.hk {
				if e.hk[j] == f {
					e.hk = append(e.hk[:j], e.hk[j+1:]...)
					e.hv = append(e.hv[:j], e.hv[j+1:]...)
					n++
					break
				}
			}
		}
		if len(e.hk) == 0 {
			delete(c13R.m, key) // an emptied hash does not exist
		}
	}
	return goredis.NewIntResult(n, nil)
}

// the one script the backend evaluates: compare-and-swap of a string key
func c13rEval(_ interface{}, ctx context.Context, script string, keys []string, args ...interface{}) *goredis.Cmd {
	key, old, nw := keys[0], c13rStr(args[0]), c13rStr(args[1])
	ttl := args[2].(int64)
	e := c13R.live(key)
	if (e == nil && old == "") || (e != nil && e.s == old) {
		c13R.m[key] = &c13rEntry{s: nw, exp: c13rExpAfter(time.Duration(ttl) * time.Second)}
		return goredis.NewCmdResult(int64(1), nil)
	}
	return goredis.NewCmdResult(int64(0), nil)
}

// ---- the two backends side by side ----------------------------------------------------------------

type c13Pair struct {
	mem *memory.Storage
	red *Storage
	mr  *miniredis.Miniredis
	now int64
	// instants at which some key expires: the clock never stops exactly on one (the backends may
	// differ on whether a key is still there at the very nanosecond it expires)
	deadlines []int64
	// ghost state for the known finding: a list / hash whose last member was removed and that got
	// a member again afterwards
	emptied, refilled map[string]bool
}

func (p *c13Pair) lifetime(ttl time.Duration) {
	if ttl > 0 {
		p.deadlines = append(p.deadlines, p.now+int64(ttl))
	}
}

func newC13Pair(ctx context.Context) *c13Pair {
	p := &c13Pair{now: int64(1) << 60, emptied: map[string]bool{}, refilled: map[string]bool{}}
	verif_ClockSet(p.now)
	p.mem = memory.New(ctx)
	if verif_Symbolic() {
		c13R = &c13Redis{m: map[string]*c13rEntry{}}
		p.red = &Storage{client: &goredis.Client{}, ctx: ctx}
		return p
	}
	mr := c13MR
	verif_Assert("C13.redis.setup.server", mr != nil)
	mr.FlushAll()
	p.mr = mr
	st, err := New(ctx, &Config{Addr: mr.Addr()})
	verif_Assert("C13.redis.setup.client", err == nil)
	p.red = st
	return p
}

func (p *c13Pair) advance(d time.Duration) {
	p.now += int64(d)
	for _, dl := range p.deadlines {
		verif_Assume(p.now != dl)
	}
	verif_ClockSet(p.now)
	if p.mr != nil {
		p.mr.FastForward(d)
	}
}

func (p *c13Pair) close() {
	if p.mr != nil {
		p.red.client.Close()
	}
}

// The in-process Redis server of the native replay is started at program initialisation, outside
// the replay's fake-clock bubble: its goroutines wait on the network, which would keep the
// bubble's clock from moving. (Nothing of it exists under the engine.)
var c13MR = c13StartServer()

func c13StartServer() *miniredis.Miniredis {
	if verif_Symbolic() {
		return nil
	}
	mr, err := miniredis.Run()
	if err != nil {
		return nil
	}
	return mr
}

// StringCmd.Bytes converts without copying (unsafe); same result
func c13rBytes(c *goredis.StringCmd) ([]byte, error) {
	v, err := c.Result()
	return []byte(v), err
}

// what a repository can observe of one key, on both backends
func (p *c13Pair) compare(tag string) {
	lm, e1 := p.mem.GetList("l")
	lr, e2 := p.red.GetList("l")
	if e1 != nil {
		lm = nil
	}
	if e2 != nil {
		lr = nil
	}
	verif_Assert("C13.redis."+tag+".list_length_same", len(lm) == len(lr))
	for i := range lm {
		if i < len(lr) {
			a, ok1 := lm[i].(string)
			b, ok2 := lr[i].(string)
			verif_Assert("C13.redis."+tag+".list_member_same", ok1 && ok2 && a == b)
		}
	}
	fields := 0
	for _, f := range []string{"f", "g"} {
		hm, e1 := p.mem.GetHash("h", f)
		hr, e2 := p.red.GetHash("h", f)
		verif_Assert("C13.redis."+tag+".hash_field_found_same", (e1 == nil) == (e2 == nil))
		if e1 == nil && e2 == nil {
			fields++
			a, ok1 := hm.(string)
			b, ok2 := hr.(string)
			verif_Assert("C13.redis."+tag+".hash_field_same", ok1 && ok2 && a == b)
		}
	}
	for _, k := range []string{"k", "l", "h", "n"} {
		// an emptied list or hash is an existing empty value in memory and no key at all in Redis:
		// the repositories only ever read such keys as lists / hashes (compared above)
		if (k == "l" && len(lm) == 0) || (k == "h" && fields == 0) {
			continue
		}
		em, _ := p.mem.Exists(k)
		er, err := p.red.Exists(k)
		verif_Assert("C13.redis."+tag+".exists_same", err == nil && em == er)
		// known finding: memory keeps an emptied list / hash (with its deadline), Redis forgets it
		verif_Known("C13-emptied-aggregate-keeps-deadline", p.refilled[k])
		tm, e1 := p.mem.GetExpiration(k)
		tr, e2 := p.red.GetExpiration(k)
		verif_Assert("C13.redis."+tag+".expiry_known_same", (e1 == nil) == (e2 == nil))
		if e1 == nil && e2 == nil {
			verif_Assert("C13.redis."+tag+".never_expires_same", (tm == 0) == (tr == 0))
			d := tm - tr
			verif_Assert("C13.redis."+tag+".lifetime_same", verif_And(d <= time.Second, d >= -time.Second))
		}
	}
	vm, e1 := p.mem.Get("k")
	vr, e2 := p.red.Get("k")
	verif_Assert("C13.redis."+tag+".get_found_same", (e1 == nil) == (e2 == nil))
	if e1 == nil && e2 == nil {
		sm, ok1 := vm.(string)
		sr, ok2 := vr.(string)
		verif_Assert("C13.redis."+tag+".get_value_same", ok1 && ok2 && sm == sr)
	}
}

// The in-memory and the Redis backend, given the same operations on string values, lists of
// strings, hashes of strings and a counter - with lifetimes, explicit expiry changes and time
// passing in between - give the same answers: existence, values, list members and order, hash
// fields, and remaining lifetimes (to the second; zero = never expires on both).
func Harness_C13_redis_vs_memory() {
	ctx, stop := context.WithCancel(context.Background())
	defer stop()
	p := newC13Pair(ctx)
	defer p.close()
	vals := []string{"a", "b"}
	symTTL := func() time.Duration { // 0 (never expires) or 2..512 s, even
		if verif_Bool() {
			return time.Duration(int64(verif_Byte())+1) * 2 * time.Second
		}
		return 0
	}
	if verif_Bool() {
		// start from keys that already exist (each created the way the repositories create them)
		p.mem.Set("k", "a", 0)
		p.red.Set("k", "a", 0)
		p.mem.AppendToList("l", "a")
		p.red.AppendToList("l", "a")
		p.mem.SetHash("h", "f", "a")
		p.red.SetHash("h", "f", "a")
		p.mem.IncrBy("n", 1)
		p.red.IncrBy("n", 1)
		p.compare("start")
		verif_Cover("C13.redis.populated_start")
		if verif_Bool() {
			p.advance(7 * time.Second) // ... a while ago
		}
	}
	n := verif_Bound("ops")
	for i := 0; i < n; i++ {
		cov := "" // cover points are passed after the comparison: never on a known finding's path
		switch verif_Choose(12) {
		case 0:
			v, ttl := vals[verif_Choose(2)], symTTL()
			p.lifetime(ttl)
			verif_Assert("C13.redis.set", p.mem.Set("k", v, ttl) == nil)
			verif_Assert("C13.redis.set", p.red.Set("k", v, ttl) == nil)
		case 1:
			k := []string{"k", "l", "h", "n"}[verif_Choose(4)]
			p.mem.Delete(k)
			verif_Assert("C13.redis.delete", p.red.Delete(k) == nil)
			p.emptied[k], p.refilled[k] = false, false
		case 2:
			ttl := symTTL()
			p.lifetime(ttl)
			a, e1 := p.mem.SetNX("k", "b", ttl)
			b, e2 := p.red.SetNX("k", "b", ttl)
			verif_Assert("C13.redis.setnx_same", e1 == nil && e2 == nil && a == b)
		case 3:
			// (the script takes whole seconds computed in floating point: a concrete lifetime)
			old, ttl := vals[verif_Choose(2)], []time.Duration{0, 4 * time.Second}[verif_Choose(2)]
			p.lifetime(ttl)
			a, e1 := p.mem.CompareAndSwap("k", old, "a", ttl)
			b, e2 := p.red.CompareAndSwap("k", old, "a", ttl)
			verif_Assert("C13.redis.cas_same", e1 == nil && e2 == nil && a == b)
		case 4:
			v := vals[verif_Choose(2)]
			verif_Assert("C13.redis.append", p.mem.AppendToList("l", v) == nil)
			verif_Assert("C13.redis.append", p.red.AppendToList("l", v) == nil)
			if p.emptied["l"] {
				p.emptied["l"], p.refilled["l"] = false, true // (no cover point here: this is the known finding's path)
			}
		case 5:
			v := vals[verif_Choose(2)]
			p.mem.RemoveFromList("l", v)
			verif_Assert("C13.redis.remove", p.red.RemoveFromList("l", v) == nil)
			if l, err := p.mem.GetList("l"); err == nil && len(l) == 0 {
				p.emptied["l"] = true
			}
		case 6:
			ttl := symTTL()
			p.lifetime(ttl)
			p.emptied["l"], p.refilled["l"] = false, false
			verif_Assert("C13.redis.setlist", p.mem.SetList("l", []interface{}{"a", "b"}, ttl) == nil)
			verif_Assert("C13.redis.setlist", p.red.SetList("l", []interface{}{"a", "b"}, ttl) == nil)
		case 7:
			f, v := []string{"f", "g"}[verif_Choose(2)], vals[verif_Choose(2)]
			verif_Assert("C13.redis.sethash", p.mem.SetHash("h", f, v) == nil)
			verif_Assert("C13.redis.sethash", p.red.SetHash("h", f, v) == nil)
			if p.emptied["h"] {
				p.emptied["h"], p.refilled["h"] = false, true
			}
			cov = "C13.redis.sethash_seen"
		case 8:
			f := []string{"f", "g"}[verif_Choose(2)]
			p.mem.DeleteHash("h", f)
			verif_Assert("C13.redis.deletehash", p.red.DeleteHash("h", f) == nil)
			if all, err := p.mem.GetAllHash("h"); err == nil && len(all) == 0 {
				p.emptied["h"] = true
			}
		case 9:
			d := int64(verif_IntRange(1, 3))
			a, e1 := p.mem.IncrBy("n", d)
			b, e2 := p.red.IncrBy("n", d)
			verif_Assert("C13.redis.incr_same", e1 == nil && e2 == nil && a == b)
		case 10:
			k, ttl := []string{"k", "l", "h", "n"}[verif_Choose(4)], symTTL()
			// on a missing key the backends differ in what they report; the effect is compared below
			p.lifetime(ttl)
			p.mem.SetExpiration(k, ttl)
			p.red.SetExpiration(k, ttl)
			cov = "C13.redis.expiry_changed"
		case 11:
			// an odd number of seconds: never exactly at an expiry instant (lifetimes are even)
			p.advance(time.Duration(2*int64(verif_Byte())+1) * time.Second)
			cov = "C13.redis.time_passed"
		}
		p.compare("after")
		if cov != "" {
			verif_Cover(cov)
		}
	}
	verif_Cover("C13.redis.done")
}
