package memory

import (
	"context"
	"time"

	"tunnox-core/internal/cloud/constants"
	"tunnox-core/internal/core/storage/types"
)

// ---- reference: a sequential map with expiry (exp == 0: never expires) -------------------

type c13Item struct {
	val any
	exp int64 // ns on the harness clock; 0 = never
}

type c13Ref struct {
	m map[string]*c13Item
}

func (r *c13Ref) live(k string, now int64) *c13Item {
	it := r.m[k]
	if it == nil {
		return nil
	}
	if it.exp != 0 && now > it.exp {
		return nil
	}
	return it
}

func c13Exp(now int64, ttl time.Duration) int64 {
	if ttl <= 0 {
		return 0
	}
	return now + int64(ttl)
}

// c13Same compares stored values structurally (int64, []any of int64, map[string]any).
func c13Same(a, b any) bool {
	switch x := a.(type) {
	case nil:
		return b == nil
	case int64:
		y, ok := b.(int64)
		return ok && x == y
	case []any:
		y, ok := b.([]any)
		if !ok || len(x) != len(y) {
			return false
		}
		for i := range x {
			if !c13Same(x[i], y[i]) {
				return false
			}
		}
		return true
	case map[string]any:
		y, ok := b.(map[string]any)
		if !ok || len(x) != len(y) {
			return false
		}
		for k, v := range x {
			w, ok := y[k]
			if !ok || !c13Same(v, w) {
				return false
			}
		}
		return true
	}
	return false
}

var c13Keys = []string{"k0", "k1"}

const c13Base = int64(1) << 60

type c13World struct {
	s   *Storage
	ref *c13Ref
	now int64
}

// advance moves the clock forward by d.
func (w *c13World) advance(d int64) {
	w.now += d
	verif_ClockSet(w.now)
}

// noBoundary excludes now == expiry for every reference item.
func (w *c13World) noBoundary() {
	for _, k := range c13Keys {
		if it := w.ref.m[k]; it != nil && it.exp != 0 {
			verif_Assume(it.exp != w.now)
		}
	}
}

func (w *c13World) checkState(tag string) {
	for _, k := range c13Keys {
		it := w.ref.live(k, w.now)
		ex, err := w.s.Exists(k)
		verif_Assert("C13."+tag+".exists", err == nil && ex == (it != nil))
		v, err := w.s.Get(k)
		if it == nil {
			verif_Assert("C13."+tag+".get.notfound", err == types.ErrKeyNotFound)
			verif_Cover("C13.seq.expired_seen")
		} else {
			verif_Assert("C13."+tag+".get.value", err == nil && c13Same(v, it.val))
		}
	}
}

func (w *c13World) step() {
	w.advance(int64(verif_IntRange(0, 1<<47)))
	w.noBoundary()
	k := c13Keys[verif_Choose(len(c13Keys))]
	ttl := time.Duration(verif_IntRange(-(1 << 40), 1<<40))
	v := int64(verif_IntRange(0, 3))
	r, s, now := w.ref, w.s, w.now
	it := r.live(k, now)
	switch verif_Choose(13) {
	case 0: // Set (scalar or list value, as the repositories store both)
		var val any = v
		switch verif_Choose(3) {
		case 1:
			val = []any{v}
		case 2: // index lists do contain repeated members
			val = []any{v, int64(verif_IntRange(0, 3)), v}
		}
		err := s.Set(k, val, ttl)
		r.m[k] = &c13Item{val: val, exp: c13Exp(now, ttl)}
		verif_Assert("C13.set.ok", err == nil)
	case 1: // Delete
		err := s.Delete(k)
		delete(r.m, k)
		verif_Assert("C13.delete.ok", err == nil)
	case 2: // SetNX
		ok, err := s.SetNX(k, v, ttl)
		want := it == nil
		if want {
			r.m[k] = &c13Item{val: v, exp: c13Exp(now, ttl)}
		}
		verif_Assert("C13.setnx", err == nil && ok == want)
	case 3: // CompareAndSwap with expected value old
		old := int64(verif_IntRange(0, 3))
		ok, err := s.CompareAndSwap(k, old, v, ttl)
		want := false
		if it != nil {
			if cur, isInt := it.val.(int64); isInt && cur == old {
				want = true
			}
		}
		if want {
			r.m[k] = &c13Item{val: v, exp: c13Exp(now, ttl)}
		}
		verif_Known("C13-cas-never-expiring", it != nil && it.exp == 0)
		verif_Known("C13-cas-ttl0", ttl <= 0)
		verif_Assert("C13.cas", err == nil && ok == want)
	case 4: // CompareAndSwap expecting absence
		ok, err := s.CompareAndSwap(k, nil, v, ttl)
		want := it == nil
		if want {
			r.m[k] = &c13Item{val: v, exp: c13Exp(now, ttl)}
		}
		verif_Known("C13-cas-never-expiring", it != nil && it.exp == 0)
		verif_Known("C13-cas-ttl0", ttl <= 0)
		verif_Assert("C13.cas.nil", err == nil && ok == want)
	case 5: // SetExpiration
		err := s.SetExpiration(k, ttl)
		if it == nil {
			delete(r.m, k)
			verif_Known("C13-setexpiration-revives-expired", r.m[k] == nil)
			verif_Assert("C13.setexp.notfound", err == types.ErrKeyNotFound)
		} else {
			it.exp = c13Exp(now, ttl)
			verif_Known("C13-setexpiration-ttl0", ttl <= 0)
			verif_Assert("C13.setexp.ok", err == nil)
		}
	case 6: // IncrBy
		d := int64(verif_IntRange(-2, 2))
		n, err := s.IncrBy(k, d)
		if it == nil {
			it = &c13Item{val: int64(0), exp: now + int64(constants.DefaultDataTTL)}
			r.m[k] = it
		}
		if cur, isInt := it.val.(int64); isInt {
			it.val = cur + d
			verif_Assert("C13.incr", err == nil && n == cur+d)
		} else {
			verif_Assert("C13.incr.type", err == types.ErrInvalidType)
		}
	case 7: // AppendToList
		err := s.AppendToList(k, v)
		if it == nil {
			r.m[k] = &c13Item{val: []any{v}, exp: now + int64(constants.DefaultDataTTL)}
			verif_Assert("C13.append.new", err == nil)
		} else if l, isL := it.val.([]any); isL {
			it.val = append(append([]any{}, l...), v)
			verif_Assert("C13.append", err == nil)
		} else {
			verif_Assert("C13.append.type", err == types.ErrInvalidType)
		}
	case 8: // RemoveFromList
		err := s.RemoveFromList(k, v)
		if it == nil {
			delete(r.m, k)
			verif_Assert("C13.remove.absent", err == nil)
		} else if l, isL := it.val.([]any); isL {
			nl := []any{}
			for _, x := range l {
				if !c13Same(x, v) {
					nl = append(nl, x)
				}
			}
			it.val = nl
			verif_Assert("C13.remove", err == nil)
		} else {
			verif_Assert("C13.remove.type", err == types.ErrInvalidType)
		}
	case 9: // GetList
		l, err := s.GetList(k)
		if it == nil {
			verif_Assert("C13.getlist.notfound", err == types.ErrKeyNotFound)
		} else if rl, isL := it.val.([]any); isL {
			verif_Assert("C13.getlist", err == nil && c13Same(l, rl))
		} else {
			verif_Assert("C13.getlist.type", err == types.ErrInvalidType)
		}
	case 10: // SetHash
		err := s.SetHash(k, "f", v)
		if it == nil {
			r.m[k] = &c13Item{val: map[string]any{"f": v}, exp: now + int64(constants.DefaultDataTTL)}
		} else if h, isH := it.val.(map[string]any); isH {
			h["f"] = v
		} else {
			it.val = map[string]any{"f": v} // implementation-defined: non-hash value is replaced
		}
		verif_Assert("C13.sethash", err == nil)
	case 11: // GetHash
		got, err := s.GetHash(k, "f")
		if it == nil {
			verif_Assert("C13.gethash.notfound", err == types.ErrKeyNotFound)
		} else if h, isH := it.val.(map[string]any); isH {
			if hv, ok := h["f"]; ok {
				verif_Assert("C13.gethash", err == nil && c13Same(got, hv))
			} else {
				verif_Assert("C13.gethash.nofield", err == types.ErrKeyNotFound)
			}
		} else {
			verif_Assert("C13.gethash.type", err == types.ErrInvalidType)
		}
	case 12: // DeleteHash + CleanupExpired
		err := s.DeleteHash(k, "f")
		if it == nil {
			delete(r.m, k)
			verif_Assert("C13.delhash.absent", err == nil)
		} else if h, isH := it.val.(map[string]any); isH {
			delete(h, "f")
			verif_Assert("C13.delhash", err == nil)
		} else {
			verif_Assert("C13.delhash.type", err == types.ErrInvalidType)
		}
		verif_Assert("C13.cleanup", s.CleanupExpired() == nil)
	}
}

func Harness_C13_sequential() {
	w := &c13World{s: New(context.Background()), ref: &c13Ref{m: map[string]*c13Item{}}, now: c13Base}
	verif_ClockSet(w.now)
	n := verif_Bound("ops")
	for i := 0; i < n; i++ {
		w.step()
		w.checkState("post")
	}
	// let time pass once more: expiry must be observed identically
	w.advance(int64(verif_IntRange(0, 1<<47)))
	w.noBoundary()
	w.checkState("later")
	verif_Cover("C13.seq.done")
}
