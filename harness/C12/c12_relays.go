package iocopy

import (
	"errors"
	"io"
	"sync"
	"time"
)

var c12ErrTunnel = errors.New("c12: tunnel failed")

// Tunnel -> UDP: the length-prefixed stream is cut at an arbitrary byte offset and
// then ends (EOF) or fails. Every complete record before the cut must come out as
// one datagram, in order, and UDP() must return.
func Harness_C12_udp_from_tunnel() {
	k := verif_IntRange(0, verif_Bound("dgrams"))
	var want [][]byte
	var stream []byte
	for i := 0; i < k; i++ {
		n := verif_IntRange(1, verif_Bound("dlen"))
		d := verif_Bytes(n)
		want = append(want, d)
		stream = append(stream, byte(n>>8), byte(n))
		stream = append(stream, d...)
	}
	cut := verif_IntRange(0, len(stream))
	// complete records before the cut
	complete := 0
	off := 0
	for _, d := range want {
		off += 2 + len(d)
		if off <= cut {
			complete++
		}
	}
	rd := &verifReader{Data: stream[:cut], Cuts: verif_Bound("cuts")}
	if verif_Bool() {
		rd.Err = c12ErrTunnel
	}
	tunnel := &verifConn{In: rd, Out: &verifSink{}}
	udp := &verifDgramConn{}
	res := UDP(udp, tunnel, nil)
	verif_Assert("C12.udp.in.count", len(udp.Out) == complete)
	for i := 0; i < complete && i < len(udp.Out); i++ {
		verif_Assert("C12.udp.in.dgram", verif_BytesEq(udp.Out[i], want[i]))
	}
	verif_Assert("C12.udp.in.closed", udp.Closed && tunnel.Closed)
	verif_Assert("C12.udp.in.result", res != nil)
	if cut < len(stream) && cut != off {
		verif_Cover("C12.udp.in.cut_mid_record")
	}
	verif_Cover("C12.udp.in.done")
}

// UDP -> tunnel: every datagram read from the UDP side appears in the tunnel byte
// stream as [len:2][data], in order, nothing else, and UDP() returns.
func Harness_C12_udp_to_tunnel() {
	k := verif_IntRange(0, verif_Bound("dgrams"))
	udp := &verifDgramConn{}
	var want []byte
	for i := 0; i < k; i++ {
		n := verif_IntRange(1, verif_Bound("dlen"))
		d := verif_Bytes(n)
		udp.In = append(udp.In, d)
		want = append(want, byte(n>>8), byte(n))
		want = append(want, d...)
	}
	out := &verifSink{}
	tunnel := &verifConn{In: &verifReader{}, Out: out}
	res := UDP(udp, tunnel, nil)
	verif_Assert("C12.udp.out.stream", verif_BytesEq(out.Buf, want))
	verif_Assert("C12.udp.out.sent", res.BytesSent == int64(len(want)-2*k))
	verif_Assert("C12.udp.out.closed", udp.Closed && tunnel.Closed)
	verif_Cover("C12.udp.out.done")
}

// TCP relay: both directions deliver everything in order; the reverse direction keeps
// going after one side half-closes; Bidirectional returns and closes both ends.
func Harness_C12_tcp() {
	na := verif_IntRange(0, verif_Bound("bytes"))
	nb := verif_IntRange(0, verif_Bound("bytes"))
	da, db := verif_Bytes(na), verif_Bytes(nb)
	ra := &verifReader{Data: da, Cuts: verif_Bound("cuts"), ErrWithLast: verif_Bool()}
	rb := &verifReader{Data: db, Cuts: verif_Bound("cuts"), ErrWithLast: verif_Bool()}
	fault := verif_Choose(4)
	wa, wb := &verifSink{}, &verifSink{}
	switch fault {
	case 1:
		ra.Err = c12ErrTunnel // A's read side fails after its data
	case 2:
		wb.Fail = true // B stops accepting writes after f bytes
		wb.FailAfter = verif_IntRange(0, na)
	case 3:
		rb.Err = c12ErrTunnel
	}
	a := &verifConn{In: ra, Out: wa}
	b := &verifConn{In: rb, Out: wb}
	res := Bidirectional(a, b, nil)
	// prefix property always; completeness when nothing failed on that direction
	verif_Assert("C12.tcp.a2b.prefix", len(wb.Buf) <= na && verif_BytesEq(wb.Buf, da[:len(wb.Buf)]))
	verif_Assert("C12.tcp.b2a.prefix", len(wa.Buf) <= nb && verif_BytesEq(wa.Buf, db[:len(wa.Buf)]))
	if fault != 2 {
		verif_Assert("C12.tcp.a2b.complete", len(wb.Buf) == na)
		verif_Assert("C12.tcp.a2b.count", res.BytesSent == int64(na))
	} else {
		verif_Assert("C12.tcp.a2b.error", res.SendError != nil || wb.FailAfter >= na)
	}
	// the reverse direction is never cut short by a problem in the forward direction
	verif_Assert("C12.tcp.b2a.complete", len(wa.Buf) == nb)
	verif_Assert("C12.tcp.halfclose", a.CloseWrites >= 1 && b.CloseWrites >= 1)
	verif_Assert("C12.tcp.closed", a.Closed && b.Closed)
	if fault == 1 {
		verif_Assert("C12.tcp.a.readerr", res.SendError != nil)
	}
	verif_Cover("C12.tcp.done")
}

// Datagrams at the buffer-size boundaries of the relay (32 KiB pool buffers, 64 KiB read
// buffer, the 16-bit length prefix): a large datagram followed by a small one crosses the
// relay intact in each direction. Four bytes of the large datagram are symbolic.
func Harness_C12_udp_large() {
	n := []int{1472, 8191, 8192, 32767, 32768, 32769, 65507, 65535}[verif_Choose(8)]
	big := make([]byte, n)
	for i := range big {
		big[i] = byte(i*5 + 1)
	}
	big[0], big[1], big[n-2], big[n-1] = verif_Byte(), verif_Byte(), verif_Byte(), verif_Byte()
	small := []byte{verif_Byte(), 0x5A}
	if verif_Bool() {
		// UDP -> tunnel
		// the large datagram first, last, or between two small ones (a relay that treats large
		// datagrams specially must still keep them in line behind what is already batched)
		seq := [][][]byte{{big, small}, {small, big}, {small, big, small}}[verif_Choose(3)]
		udp := &verifDgramConn{In: seq}
		out := &verifSink{}
		tunnel := &verifConn{In: &verifReader{}, Out: out}
		UDP(udp, tunnel, nil)
		var want []byte
		for _, d := range seq {
			want = append(want, byte(len(d)>>8), byte(len(d)))
			want = append(want, d...)
		}
		verif_Assert("C12.large.to_tunnel.length", len(out.Buf) == len(want))
		verif_Assert("C12.large.to_tunnel.stream", verif_BytesEq(out.Buf, want))
		verif_Cover("C12.large.to_tunnel")
	} else {
		// tunnel -> UDP, the stream arriving in two pieces cut inside the large record
		stream := append([]byte{byte(n >> 8), byte(n)}, big...)
		stream = append(stream, 0, 2)
		stream = append(stream, small...)
		udp := &verifDgramConn{ReadErr: c12ErrTunnel}
		tunnel := &verifConn{In: &verifReader{Data: stream, Cuts: 1}, Out: &verifSink{}}
		UDP(udp, tunnel, nil)
		verif_Assert("C12.large.to_udp.count", len(udp.Out) == 2)
		verif_Assert("C12.large.to_udp.big", verif_BytesEq(udp.Out[0], big))
		verif_Assert("C12.large.to_udp.small", verif_BytesEq(udp.Out[1], small))
		verif_Cover("C12.large.to_udp")
	}
	verif_Cover("C12.large.done")
}

// c12Duplex is a tunnel transport that has Close but no half-close of its own (a pipe, a
// websocket): one object is both the reader and the writer. Its far end answers only after it
// has received the whole request, and a moment later.
type c12Duplex struct {
	mu     sync.Mutex
	want   int // request bytes the far end waits for
	got    []byte
	reply  []byte
	sent   bool
	ready  chan struct{}
	closed bool
	closeN int
}

func (d *c12Duplex) Write(p []byte) (int, error) {
	d.mu.Lock()
	defer d.mu.Unlock()
	if d.closed {
		return 0, io.ErrClosedPipe
	}
	d.got = append(d.got, p...)
	if len(d.got) >= d.want && d.ready != nil {
		close(d.ready)
		d.ready = nil
	}
	return len(p), nil
}
func (d *c12Duplex) Read(p []byte) (int, error) {
	d.mu.Lock()
	rd := d.ready
	d.mu.Unlock()
	if rd != nil {
		<-rd
	}
	time.Sleep(200 * time.Millisecond) // the far end needs a moment to answer
	d.mu.Lock()
	defer d.mu.Unlock()
	if d.closed {
		return 0, io.ErrClosedPipe
	}
	if d.sent {
		return 0, io.EOF
	}
	d.sent = true
	return copy(p, d.reply), nil
}
func (d *c12Duplex) Close() error {
	d.mu.Lock()
	defer d.mu.Unlock()
	d.closed = true
	d.closeN++
	return nil
}

// Request/response through a tunnel whose transport cannot half-close: the local application
// sends its request and closes its write side, the far end answers afterwards. The answer must
// still arrive - finishing one direction must not tear down the other.
func Harness_C12_request_reply() {
	verif_ClockSet(int64(1) << 60)
	na := verif_IntRange(1, verif_Bound("bytes"))
	nb := verif_IntRange(1, verif_Bound("bytes"))
	req, rep := verif_Bytes(na), verif_Bytes(nb)
	local := &verifConn{In: &verifReader{Data: req}, Out: &verifSink{}}
	d := &c12Duplex{want: na, reply: rep, ready: make(chan struct{})}
	tunnel, err := NewReadWriteCloser(d, d, func() error { return d.Close() })
	verif_Assert("C12.rr.setup", err == nil)
	res := Bidirectional(local, tunnel, nil)
	verif_Assert("C12.rr.request_delivered", verif_BytesEq(d.got, req))
	verif_Assert("C12.rr.reply_delivered", verif_BytesEq(local.Out.Buf, rep))
	verif_Assert("C12.rr.counts", res.BytesSent == int64(na) && res.BytesReceived == int64(nb))
	verif_Assert("C12.rr.closed", d.closed && local.Closed)
	verif_Cover("C12.rr.done")
}

// c12SlowTunnel is a tunnel whose writes take 50 ms (back-pressure) and which refuses writes
// after its write side was closed; its read side stays open until the tunnel is closed.
type c12SlowTunnel struct {
	mu          sync.Mutex
	got         []byte
	closedWrite bool
	rejected    int
	closed      chan struct{}
	once        sync.Once
}

func (t *c12SlowTunnel) Write(p []byte) (int, error) {
	time.Sleep(50 * time.Millisecond)
	t.mu.Lock()
	defer t.mu.Unlock()
	if t.closedWrite {
		t.rejected++
		return 0, io.ErrClosedPipe
	}
	t.got = append(t.got, p...)
	return len(p), nil
}
// the far end finishes its own direction once it has seen the half-close
func (t *c12SlowTunnel) Read(p []byte) (int, error) { <-t.closed; return 0, io.EOF }
func (t *c12SlowTunnel) CloseWrite() error {
	t.mu.Lock()
	t.closedWrite = true
	t.mu.Unlock()
	t.once.Do(func() { close(t.closed) })
	return nil
}
func (t *c12SlowTunnel) Close() error { return t.CloseWrite() }

// c12QuietUDP delivers its datagrams at once, stays quiet for 30 ms, then ends.
type c12QuietUDP struct {
	verifDgramConn
	slept bool
}

func (c *c12QuietUDP) Read(p []byte) (int, error) {
	if len(c.In) == 0 && !c.slept {
		c.slept = true
		time.Sleep(30 * time.Millisecond)
	}
	return c.verifDgramConn.Read(p)
}

// The local UDP side ends while the periodic flush (every 20 ms) is still inside a slow tunnel
// write: the datagrams of that flush are delivered before the tunnel's write side is closed -
// nothing is written after the half-close and nothing is lost.
func Harness_C12_udp_slow_tunnel() {
	verif_ClockSet(int64(1) << 60)
	k := verif_IntRange(1, 2)
	udp := &c12QuietUDP{}
	var want []byte
	for i := 0; i < k; i++ {
		d := []byte{verif_Byte(), byte(i)}
		udp.In = append(udp.In, d)
		want = append(want, 0, 2)
		want = append(want, d...)
	}
	tunnel := &c12SlowTunnel{closed: make(chan struct{})}
	UDP(udp, tunnel, nil)
	tunnel.mu.Lock()
	got, rejected := tunnel.got, tunnel.rejected
	tunnel.mu.Unlock()
	verif_Assert("C12.slow.nothing_written_after_half_close", rejected == 0)
	verif_Assert("C12.slow.all_delivered", verif_BytesEq(got, want))
	verif_Cover("C12.slow.done")
}
