package mapping

import (
	"net"
	"sync"
)

// c12Sock is the listen client's UDP socket as the adapter sees it: every datagram sent through
// it is recorded with its destination.
type c12Sock struct {
	net.PacketConn
	mu   sync.Mutex
	sent [][]byte
	to   []string
}

func (s *c12Sock) WriteTo(p []byte, a net.Addr) (int, error) {
	s.mu.Lock()
	defer s.mu.Unlock()
	s.sent = append(s.sent, append([]byte(nil), p...))
	s.to = append(s.to, a.String())
	return len(p), nil
}

type c12Addr string

func (a c12Addr) Network() string { return "udp" }
func (a c12Addr) String() string  { return string(a) }

// The listen client's UDP side: datagrams arriving on the socket from two applications become two
// sessions; each session reads exactly its own datagrams, whole and in order. Datagrams written to
// a session - back to back, before the session's sender has sent the earlier ones - leave through
// the socket to that application unchanged, one WriteTo per datagram, in order.
func Harness_C12_udp_sessions() {
	verif_ClockSet(int64(1) << 60)
	a := &UDPMappingAdapter{connChan: make(chan *UDPVirtualConn, 4), closeCh: make(chan struct{})}
	sock := &c12Sock{}
	addrs := []net.Addr{c12Addr("10.0.0.1:5000"), c12Addr("10.0.0.2:5000")}
	var in [2][][]byte
	k := verif_IntRange(1, verif_Bound("dgrams"))
	for i := 0; i < k; i++ {
		who := verif_Choose(2)
		d := verif_Bytes(verif_IntRange(1, verif_Bound("dlen")))
		buf := getBuffer()
		n := copy(buf, d)
		a.processPacket(buf, n, addrs[who], sock)
		in[who] = append(in[who], d)
	}
	var sess [2]*UDPVirtualConn
	for who := 0; who < 2; who++ {
		if len(in[who]) == 0 {
			continue
		}
		v, ok := a.sessions.Load(addrs[who].String())
		verif_Assert("C12.sess.session_exists", ok)
		sess[who] = v.(*UDPVirtualConn)
		p := make([]byte, 64)
		for j, want := range in[who] {
			n, err := sess[who].Read(p)
			verif_Assert("C12.sess.read_ok", err == nil)
			verif_Assert("C12.sess.datagram_whole", n == len(want))
			verif_Assert("C12.sess.datagram_bytes", verif_BytesEq(p[:n], want))
			_ = j
		}
	}
	// replies: a burst of datagrams per session, written before anything is sent
	var out [2][][]byte
	for who := 0; who < 2; who++ {
		if sess[who] == nil {
			continue
		}
		w := verif_IntRange(0, verif_Bound("dgrams"))
		for j := 0; j < w; j++ {
			d := verif_Bytes(verif_IntRange(1, verif_Bound("dlen")))
			n, err := sess[who].Write(d)
			verif_Assert("C12.sess.write_ok", err == nil && n == len(d))
			out[who] = append(out[who], d)
		}
		if w >= 2 {
			verif_Cover("C12.sess.burst")
		}
	}
	verif_Quiesce()
	sock.mu.Lock()
	var idx [2]int
	for i, d := range sock.sent {
		who := 0
		if sock.to[i] == addrs[1].String() {
			who = 1
		}
		verif_Assert("C12.sess.sent_expected", idx[who] < len(out[who]))
		want := out[who][idx[who]]
		verif_Assert("C12.sess.sent_whole", len(d) == len(want))
		verif_Assert("C12.sess.sent_bytes", verif_BytesEq(d, want))
		idx[who]++
	}
	verif_Assert("C12.sess.all_sent", idx[0] == len(out[0]) && idx[1] == len(out[1]))
	sock.mu.Unlock()
	verif_Assert("C12.sess.close", a.Close() == nil)
	left := verif_Quiesce()
	verif_Assert("C12.sess.nothing_running", left == 0)
	verif_Cover("C12.sess.done")
}
