package dispose

import "time"

type c16Res func() error

func (f c16Res) Dispose() error { return f() }

// Shutdown through the resource manager with a deadline: whether the resources finish in time
// or one of them outlasts the timeout (and finishes later), every resource is disposed exactly
// once, the call returns (with the timeout reported when it struck), and once the slow resource
// has been unblocked none of the goroutines the manager started remains.
func Harness_C16_manager_timeout() {
	verif_ClockSet(int64(1) << 60)
	rm := NewResourceManager()
	release := make(chan struct{})
	n1, n2 := 0, 0
	slow := verif_Bool()
	verif_Assert("C16.mgr.setup.register", rm.Register("a", c16Res(func() error {
		n1++
		return nil
	})) == nil && rm.Register("b", c16Res(func() error {
		n2++
		if slow {
			<-release
		}
		return nil
	})) == nil)
	res := rm.DisposeWithTimeout(50 * time.Millisecond)
	verif_Assert("C16.mgr.returns_result", res != nil)
	if slow {
		verif_Assert("C16.mgr.timeout_reported", len(res.Errors) == 1 && res.Errors[0].ResourceName == "timeout")
		verif_Cover("C16.mgr.timed_out")
	} else {
		verif_Assert("C16.mgr.clean", len(res.Errors) == 0 && n1 == 1 && n2 == 1)
	}
	close(release)
	left := verif_Quiesce()
	verif_Assert("C16.mgr.each_once", n1 == 1 && n2 == 1)
	verif_Assert("C16.mgr.nothing_running", left == 0)
	rm.DisposeAll()
	verif_Assert("C16.mgr.still_once", n1 == 1 && n2 == 1)
	verif_Cover("C16.mgr.done")
}
