package tunnel

import (
	"context"
	"net"
	"sync"
)

// c16Open is a connection whose peer sends nothing and does not close: reads block until the
// connection itself is closed.
type c16Open struct {
	once   sync.Once
	done   chan struct{}
	Closed bool
}

func newC16Open() *c16Open { return &c16Open{done: make(chan struct{})} }
func (c *c16Open) Read(p []byte) (int, error) {
	<-c.done
	return 0, net.ErrClosed
}
func (c *c16Open) Write(p []byte) (int, error) { return len(p), nil }
func (c *c16Open) Close() error {
	c.once.Do(func() { c.Closed = true; close(c.done) })
	return nil
}

type c16Mgr struct {
	TunnelManager
	ctx          context.Context
	unregistered int
}

func (m *c16Mgr) Ctx() context.Context            { return m.ctx }
func (m *c16Mgr) UnregisterTunnel(id string) bool { m.unregistered++; return true }
func (m *c16Mgr) RegisterTunnel(t *Tunnel) error  { return nil }

// Closing a connected tunnel from several goroutines at once runs the close body and
// the onClosed callback exactly once and leaves it Closed.
func Harness_C16_tunnel_close() {
	verif_ClockSet(int64(1) << 60)
	closed := 0
	mgr := &c16Mgr{ctx: context.Background()}
	local := &verifConn{In: &verifReader{}, Out: &verifSink{}}
	remote := &verifConn{In: &verifReader{}, Out: &verifSink{}}
	t := NewTunnel(&TunnelConfig{ID: "t1", MappingID: "m1", Role: TunnelRoleTarget, Protocol: "tcp", LocalConn: local, TunnelRWC: remote,
		Manager: mgr, OnClosed: func(r CloseReason, err error) { closed++ }})
	t.SetCtx(mgr.ctx, t.onClose)
	t.state.Store(int32(TunnelStateConnected))
	third := verif_Bool()
	verif_Spawn(func() { t.Close(CloseReasonPeerClosed, nil) })
	verif_Spawn(func() { t.Close(CloseReasonContextCanceled, nil) })
	if third {
		verif_Spawn(func() { t.NotifyPeerClosed("x", nil) })
	}
	verif_Quiesce()
	verif_Assert("C16.tun.onclosed_once", closed == 1)
	verif_Assert("C16.tun.unregistered_once", mgr.unregistered == 1)
	verif_Assert("C16.tun.state_closed", t.GetState() == TunnelStateClosed)
	verif_Assert("C16.tun.conns_closed", local.Closed && remote.Closed)
	verif_Assert("C16.tun.close_again_ok", t.Close(CloseReasonNormal, nil) == nil && closed == 1)
	verif_Cover("C16.tun.done")
}

// A started tunnel whose data copy ends on its own (both model connections reach EOF)
// while an external Close arrives: callback once, and none of its goroutines remains.
func Harness_C16_tunnel_lifecycle() {
	verif_ClockSet(int64(1) << 60)
	closed := 0
	ctx, cancel := context.WithCancel(context.Background())
	defer cancel()
	mgr := &c16Mgr{ctx: ctx}
	local := &verifConn{In: &verifReader{Data: verif_Bytes(1)}, Out: &verifSink{}}
	remote := &verifConn{In: &verifReader{}, Out: &verifSink{}}
	t := NewTunnel(&TunnelConfig{ID: "t1", MappingID: "m1", Role: TunnelRoleTarget, Protocol: "tcp", LocalConn: local, TunnelRWC: remote,
		Manager: mgr, OnClosed: func(r CloseReason, err error) { closed++ }})
	verif_Assert("C16.life.start", t.Start() == nil)
	switch verif_Choose(3) {
	case 1:
		t.Close(CloseReasonPeerClosed, nil)
	case 2: // the client shuts down: the parent context is cancelled, nobody calls Close
		cancel()
		verif_Cover("C16.life.parent_cancelled")
	}
	left := verif_Quiesce()
	verif_Assert("C16.life.onclosed_once", closed == 1)
	verif_Assert("C16.life.nothing_running", left == 0)
	verif_Assert("C16.life.state_closed", t.GetState() == TunnelStateClosed)
	verif_Cover("C16.life.done")
}

// Close arriving while Start is still running (peer notification / CloseAll during start-up):
// whichever wins, the close body and the callback run exactly once, the tunnel ends Closed and
// none of the goroutines Start launched remains.
func Harness_C16_tunnel_start_race() {
	verif_ClockSet(int64(1) << 60)
	closed := 0
	ctx, cancel := context.WithCancel(context.Background())
	defer cancel()
	mgr := &c16Mgr{ctx: ctx}
	local := &verifConn{In: &verifReader{}, Out: &verifSink{}}
	remote := &verifConn{In: &verifReader{}, Out: &verifSink{}}
	t := NewTunnel(&TunnelConfig{ID: "t1", MappingID: "m1", Role: TunnelRoleTarget, Protocol: "tcp", LocalConn: local, TunnelRWC: remote,
		Manager: mgr, OnClosed: func(r CloseReason, err error) { closed++ }})
	var startErr error
	verif_Spawn(func() { startErr = t.Start() })
	verif_Spawn(func() { t.Close(CloseReasonPeerClosed, nil) })
	left := verif_Quiesce()
	_ = startErr
	verif_Assert("C16.race.onclosed_once", closed == 1)
	verif_Assert("C16.race.unregistered_once", mgr.unregistered == 1)
	verif_Assert("C16.race.state_closed", t.GetState() == TunnelStateClosed)
	verif_Assert("C16.race.conns_closed", local.Closed && remote.Closed)
	verif_Assert("C16.race.nothing_running", left == 0)
	verif_Cover("C16.race.done")
}

// The real tunnel manager with two connected tunnels: the client shuts the manager down while a
// fatal error notification for one tunnel and the peer's close notification for the other arrive.
// Every tunnel's close body and callback run exactly once, its connections are closed, the manager
// ends up empty and closing it (or a tunnel) again is harmless.
func Harness_C16_real_manager() {
	verif_ClockSet(int64(1) << 60)
	ctx, cancel := context.WithCancel(context.Background())
	defer cancel()
	mgr := NewTunnelManager(ctx, TunnelRoleTarget)
	closed := [2]int{}
	var conns [2][2]*verifConn
	var ts [2]*Tunnel
	for i := 0; i < 2; i++ {
		i := i
		conns[i][0] = &verifConn{In: &verifReader{}, Out: &verifSink{}}
		conns[i][1] = &verifConn{In: &verifReader{}, Out: &verifSink{}}
		ts[i] = NewTunnel(&TunnelConfig{ID: []string{"t1", "t2"}[i], MappingID: "m1", Role: TunnelRoleTarget, Protocol: "tcp", LocalConn: conns[i][0], TunnelRWC: conns[i][1],
			Manager: mgr, OnClosed: func(r CloseReason, err error) { closed[i]++ }})
		ts[i].SetCtx(mgr.Ctx(), ts[i].onClose)
		ts[i].state.Store(int32(TunnelStateConnected))
		verif_Assert("C16.mgr2.register", mgr.RegisterTunnel(ts[i]) == nil)
	}
	verif_Assert("C16.mgr2.duplicate_refused", mgr.RegisterTunnel(ts[0]) != nil && mgr.CountTunnels() == 2)
	var closeErr error
	verif_Spawn(func() { closeErr = mgr.Close() })
	verif_Spawn(func() { mgr.OnTunnelError("t1", "m1", "E", "fatal", false) })
	if verif_Bool() {
		verif_Spawn(func() { mgr.OnTunnelClosed("t2", "m1", "peer", 1, 2, 3) })
		verif_Cover("C16.mgr2.peer_notification")
	}
	left := verif_Quiesce()
	verif_Assert("C16.mgr2.close_ok", closeErr == nil)
	verif_Assert("C16.mgr2.onclosed_once", closed[0] == 1 && closed[1] == 1)
	verif_Assert("C16.mgr2.states_closed", ts[0].GetState() == TunnelStateClosed && ts[1].GetState() == TunnelStateClosed)
	verif_Assert("C16.mgr2.conns_closed", conns[0][0].Closed && conns[0][1].Closed && conns[1][0].Closed && conns[1][1].Closed)
	verif_Assert("C16.mgr2.manager_empty", mgr.CountTunnels() == 0 && mgr.GetTunnel("t1") == nil)
	verif_Assert("C16.mgr2.nothing_running", left == 0)
	verif_Assert("C16.mgr2.close_again_ok", mgr.Close() == nil && ts[0].Close(CloseReasonNormal, nil) == nil && closed[0] == 1)
	verif_Assert("C16.mgr2.close_unknown_fails_cleanly", mgr.CloseTunnel("t1", CloseReasonNormal) != nil)
	verif_Cover("C16.mgr2.done")
}

// The mapping handler registers a tunnel and starts it afterwards; the manager may be closed in
// between (or while Start runs). However the three interleave, the tunnel ends Closed with its
// callback run exactly once, both connections closed, nothing of it running and the manager empty.
func Harness_C16_manager_close_before_start() {
	verif_ClockSet(int64(1) << 60)
	ctx, cancel := context.WithCancel(context.Background())
	defer cancel()
	mgr := NewTunnelManager(ctx, TunnelRoleTarget)
	closed := 0
	local, remote := newC16Open(), newC16Open() // both peers idle: nothing ends the tunnel but a close
	t := NewTunnel(&TunnelConfig{ID: "t1", MappingID: "m1", Role: TunnelRoleTarget, Protocol: "tcp", LocalConn: local, TunnelRWC: remote,
		Manager: mgr, OnClosed: func(r CloseReason, err error) { closed++ }})
	verif_Assert("C16.mgr3.register", mgr.RegisterTunnel(t) == nil)
	var startErr error
	if verif_Bool() {
		// strictly in between
		verif_Assert("C16.mgr3.close_ok", mgr.Close() == nil)
		startErr = t.Start()
		verif_Cover("C16.mgr3.closed_between")
	} else {
		verif_Spawn(func() { mgr.Close() })
		verif_Spawn(func() { startErr = t.Start() })
		verif_Cover("C16.mgr3.closed_during_start")
	}
	left := verif_Quiesce()
	_ = startErr
	verif_Assert("C16.mgr3.onclosed_once", closed == 1)
	verif_Assert("C16.mgr3.state_closed", t.GetState() == TunnelStateClosed)
	verif_Assert("C16.mgr3.conns_closed", local.Closed && remote.Closed)
	verif_Assert("C16.mgr3.manager_empty", mgr.CountTunnels() == 0)
	verif_Assert("C16.mgr3.nothing_running", left == 0)
	verif_Cover("C16.mgr3.done")
}
