package tunnel

import (
	"context"
)

type c16Mgr struct {
	TunnelManager
	ctx          context.Context
	unregistered int
}

func (m *c16Mgr) Ctx() context.Context            { return m.ctx }
func (m *c16Mgr) UnregisterTunnel(id string) bool { m.unregistered++; return true }
func (m *c16Mgr) RegisterTunnel(t *Tunnel) error  { return nil }

// Closing a connected tunnel from several goroutines at once runs the close body and
// the onClosed callback exactly once and leaves it Closed.
func Harness_C16_tunnel_close() {
	verif_ClockSet(int64(1) << 60)
	closed := 0
	mgr := &c16Mgr{ctx: context.Background()}
	local := &verifConn{In: &verifReader{}, Out: &verifSink{}}
	remote := &verifConn{In: &verifReader{}, Out: &verifSink{}}
	t := NewTunnel(&TunnelConfig{ID: "t1", MappingID: "m1", Role: TunnelRoleTarget, Protocol: "tcp", LocalConn: local, TunnelRWC: remote,
		Manager: mgr, OnClosed: func(r CloseReason, err error) { closed++ }})
	t.SetCtx(mgr.ctx, t.onClose)
	t.state.Store(int32(TunnelStateConnected))
	third := verif_Bool()
	verif_Spawn(func() { t.Close(CloseReasonPeerClosed, nil) })
	verif_Spawn(func() { t.Close(CloseReasonContextCanceled, nil) })
	if third {
		verif_Spawn(func() { t.NotifyPeerClosed("x", nil) })
	}
	verif_Quiesce()
	verif_Assert("C16.tun.onclosed_once", closed == 1)
	verif_Assert("C16.tun.unregistered_once", mgr.unregistered == 1)
	verif_Assert("C16.tun.state_closed", t.GetState() == TunnelStateClosed)
	verif_Assert("C16.tun.conns_closed", local.Closed && remote.Closed)
	verif_Assert("C16.tun.close_again_ok", t.Close(CloseReasonNormal, nil) == nil && closed == 1)
	verif_Cover("C16.tun.done")
}

// A started tunnel whose data copy ends on its own (both model connections reach EOF)
// while an external Close arrives: callback once, and none of its goroutines remains.
func Harness_C16_tunnel_lifecycle() {
	verif_ClockSet(int64(1) << 60)
	closed := 0
	ctx, cancel := context.WithCancel(context.Background())
	defer cancel()
	mgr := &c16Mgr{ctx: ctx}
	local := &verifConn{In: &verifReader{Data: verif_Bytes(1)}, Out: &verifSink{}}
	remote := &verifConn{In: &verifReader{}, Out: &verifSink{}}
	t := NewTunnel(&TunnelConfig{ID: "t1", MappingID: "m1", Role: TunnelRoleTarget, Protocol: "tcp", LocalConn: local, TunnelRWC: remote,
		Manager: mgr, OnClosed: func(r CloseReason, err error) { closed++ }})
	verif_Assert("C16.life.start", t.Start() == nil)
	switch verif_Choose(3) {
	case 1:
		t.Close(CloseReasonPeerClosed, nil)
	case 2: // the client shuts down: the parent context is cancelled, nobody calls Close
		cancel()
		verif_Cover("C16.life.parent_cancelled")
	}
	left := verif_Quiesce()
	verif_Assert("C16.life.onclosed_once", closed == 1)
	verif_Assert("C16.life.nothing_running", left == 0)
	verif_Assert("C16.life.state_closed", t.GetState() == TunnelStateClosed)
	verif_Cover("C16.life.done")
}

// Close arriving while Start is still running (peer notification / CloseAll during start-up):
// whichever wins, the close body and the callback run exactly once, the tunnel ends Closed and
// none of the goroutines Start launched remains.
func Harness_C16_tunnel_start_race() {
	verif_ClockSet(int64(1) << 60)
	closed := 0
	ctx, cancel := context.WithCancel(context.Background())
	defer cancel()
	mgr := &c16Mgr{ctx: ctx}
	local := &verifConn{In: &verifReader{}, Out: &verifSink{}}
	remote := &verifConn{In: &verifReader{}, Out: &verifSink{}}
	t := NewTunnel(&TunnelConfig{ID: "t1", MappingID: "m1", Role: TunnelRoleTarget, Protocol: "tcp", LocalConn: local, TunnelRWC: remote,
		Manager: mgr, OnClosed: func(r CloseReason, err error) { closed++ }})
	var startErr error
	verif_Spawn(func() { startErr = t.Start() })
	verif_Spawn(func() { t.Close(CloseReasonPeerClosed, nil) })
	left := verif_Quiesce()
	_ = startErr
	verif_Assert("C16.race.onclosed_once", closed == 1)
	verif_Assert("C16.race.unregistered_once", mgr.unregistered == 1)
	verif_Assert("C16.race.state_closed", t.GetState() == TunnelStateClosed)
	verif_Assert("C16.race.conns_closed", local.Closed && remote.Closed)
	verif_Assert("C16.race.nothing_running", left == 0)
	verif_Cover("C16.race.done")
}
