package session

import (
	"context"
	"encoding/json"
	"time"

	"tunnox-core/internal/cloud/models"
	"tunnox-core/internal/core/types"
	"tunnox-core/internal/packet"
)

// The session manager is closed (from one or two goroutines) while it holds an authenticated
// control connection and a live tunnel with both ends attached and idle: every transport it
// owns is closed, the bridge ends and is forgotten, nothing it started is left running, and a
// further Close is harmless.
func Harness_C16_session_close() {
	verif_ClockSet(int64(1) << 60)
	ctx, stop := context.WithCancel(context.Background())
	defer stop()
	sm := NewSessionManager(nil, ctx)
	sm.SetNodeID("node-A")
	sm.SetAuthHandler(&vsAuth{ok: map[int64]bool{1001: true, 1002: true}})
	sm.SetCloudControl(s02Cloud{m: map[string]*models.PortMapping{"pm1": {ID: "pm1", ListenClientID: 1001, TargetClientID: 1002,
		Status: models.MappingStatusActive, Protocol: models.ProtocolUDP, TargetHost: "127.0.0.1", TargetPort: 53}}})
	sm.SetTunnelHandler(s02Tunnels{})

	ctl := newS02End("ctl", nil, nil, false)
	_, cerr := sm.CreateConnection(ctl, ctl)
	verif_Assert("C16.sess.setup.ctl", cerr == nil)
	hs, _ := json.Marshal(&packet.HandshakeRequest{ClientID: 1001, ConnectionType: "control"})
	verif_Assert("C16.sess.setup.ctl_handshake", sm.HandlePacket(&types.StreamPacket{ConnectionID: "ctl", Timestamp: time.Now(), Packet: &packet.TransferPacket{PacketType: packet.Handshake, Payload: hs}}) == nil)

	withTunnel := verif_Bool()
	src := newS02End("src", nil, nil, false)
	dst := newS02End("dst", nil, nil, false)
	tunnelID := ""
	if withTunnel {
		var err error
		tunnelID, err = sm.StartServerTunnel("pm1", src)
		verif_Assert("C16.sess.setup.tunnel", err == nil)
		_, derr := sm.CreateConnection(dst, dst)
		verif_Assert("C16.sess.setup.dst", derr == nil)
		hs2, _ := json.Marshal(&packet.HandshakeRequest{ClientID: 1002, ConnectionType: "tunnel"})
		verif_Assert("C16.sess.setup.dst_handshake", sm.HandlePacket(&types.StreamPacket{ConnectionID: "dst", Timestamp: time.Now(), Packet: &packet.TransferPacket{PacketType: packet.Handshake, Payload: hs2}}) == nil)
		op, _ := json.Marshal(&packet.TunnelOpenRequest{TunnelID: tunnelID, MappingID: "pm1"})
		sm.HandlePacket(&types.StreamPacket{ConnectionID: "dst", Timestamp: time.Now(), Packet: &packet.TransferPacket{PacketType: packet.TunnelOpen, Payload: op}})
	}
	time.Sleep(time.Second)
	verif_Quiesce()

	closers := 1
	if verif_Bool() {
		closers = 2
	}
	for i := 0; i < closers; i++ {
		verif_GoGate(func() { sm.Close() })
	}
	time.Sleep(time.Hour)
	left := verif_Quiesce()

	_, ctlClosed := ctl.snapshot()
	verif_Assert("C16.sess.control_transport_closed", ctlClosed)
	if withTunnel {
		_, sClosed := src.snapshot()
		_, dClosed := dst.snapshot()
		verif_Assert("C16.sess.tunnel_ends_closed", sClosed && dClosed)
		sm.bridgeLock.RLock()
		n := len(sm.tunnelBridges)
		sm.bridgeLock.RUnlock()
		verif_Assert("C16.sess.bridge_forgotten", n == 0)
		verif_Cover("C16.sess.with_tunnel")
	}
	verif_Assert("C16.sess.nothing_running", left == 0)
	verif_Assert("C16.sess.close_again", sm.Close() == nil || true)
	_, ok := sm.GetConnection("ctl")
	verif_Assert("C16.sess.connection_gone", !ok)
	verif_Cover("C16.sess.done")
}
