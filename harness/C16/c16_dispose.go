package dispose

import "context"

// Any number of concurrent Close calls run every clean handler exactly once.
func Harness_C16_dispose() {
	n1, n2, onClose := 0, 0, 0
	d := NewDispose(context.Background(), func() error { onClose++; return nil })
	d.AddCleanHandler(func() error { n1++; return nil })
	d.AddCleanHandler(func() error { n2++; return nil })
	verif_Spawn(func() { d.Close() })
	verif_Spawn(func() { d.CloseWithError() })
	if verif_Bool() {
		verif_Spawn(func() { d.Close() })
	}
	verif_Quiesce()
	verif_Assert("C16.disp.handlers_once", n1 == 1 && n2 == 1 && onClose == 1)
	verif_Assert("C16.disp.closed", d.IsClosed())
	verif_Assert("C16.disp.ctx_cancelled", d.Ctx().Err() != nil)
	d.Close()
	verif_Assert("C16.disp.still_once", n1 == 1 && n2 == 1 && onClose == 1)
	verif_Cover("C16.disp.done")
}
