package tunnel

import (
	"context"
	"errors"
	"sync"
	"time"

	"tunnox-core/internal/cloud/models"
	"tunnox-core/internal/cloud/stats"
)

// cloud control double: one mapping whose traffic totals are the observable. Each call takes a
// nanosecond of (fake) time, as a storage round trip does: a sleeping caller lets every other
// goroutine run, identically under the engine's clock and in the native synctest bubble, so the
// interleavings at these I/O points are explored and replayed deterministically.
type c16Cloud struct {
	mu      sync.Mutex
	mapping models.PortMapping
	updates int
}

func (c *c16Cloud) GetPortMapping(id string) (*models.PortMapping, error) {
	c.mu.Lock()
	defer c.mu.Unlock()
	if id != c.mapping.ID {
		return nil, errors.New("mapping not found")
	}
	cp := c.mapping
	return &cp, nil
}
func (c *c16Cloud) UpdatePortMappingStats(id string, st *stats.TrafficStats) error {
	c.mu.Lock()
	defer c.mu.Unlock()
	c.mapping.TrafficStats = *st
	c.updates++
	return nil
}
func (c *c16Cloud) GetClientPortMappings(id int64) ([]*models.PortMapping, error) { return nil, nil }

// A server bridge that carried some bytes is closed - by its own copy loops finishing and by
// one or two external Close calls at once: the traffic totals are reported exactly once (the
// mapping's counters equal the bytes delivered), both ends are closed, Start returns, nothing
// the bridge started is left running, and later calls fail cleanly.
func Harness_C16_bridge_close() {
	verif_ClockSet(int64(1) << 60)
	ctx, stop := context.WithCancel(context.Background())
	defer stop()
	cloud := &c16Cloud{mapping: models.PortMapping{ID: "pm1"}}
	n := verif_IntRange(1, 2)
	data := verif_Bytes(n)
	selfEnd := verif_Bool() // the source closes after its data; otherwise only the external Close ends the tunnel
	src := newC02End(data, []int{n}, selfEnd, -1)
	dst := newC02End(nil, nil, false, -1)
	b := NewBridge(ctx, &BridgeConfig{TunnelID: "tun-1", MappingID: "pm1", SourceConn: src, CloudControl: cloud})
	b.SetTargetConnection(c02TunnelConn{conn: dst})
	done := make(chan struct{})
	verif_GoGate(func() {
		b.Start()
		close(done)
	})
	closers := 1
	if verif_Bound("closers") > 1 && verif_Bool() {
		closers = 2
	}
	for i := 0; i < closers; i++ {
		verif_GoGate(func() { b.Close() })
	}
	time.Sleep(time.Hour)
	verif_Quiesce()

	gotT, closedT := dst.snapshot()
	_, closedS := src.snapshot()
	verif_Assert("C16.bridge.ends_closed", closedT && closedS)
	finished := false
	select {
	case <-done:
		finished = true
	default:
	}
	verif_Assert("C16.bridge.start_returned", finished)
	mp, _ := cloud.GetPortMapping("pm1")
	verif_Assert("C16.bridge.totals_not_lost", mp.TrafficStats.BytesSent >= int64(len(gotT)))
	verif_Assert("C16.bridge.totals_reported_once", mp.TrafficStats.BytesSent <= int64(len(gotT)) && mp.TrafficStats.BytesReceived == 0)
	// later operations fail cleanly
	verif_Assert("C16.bridge.close_again", b.Close() == nil)
	// a target that attaches after the bridge was closed (the dispatcher looked the bridge up just
	// before) is released by the next Close, as the lifecycle's deferred Close relies on
	late := newC02End(nil, nil, false, -1)
	b.SetTargetConnection(c02TunnelConn{conn: late})
	verif_Assert("C16.bridge.close_after_late_attach", b.Close() == nil)
	_, lateClosed := late.snapshot()
	verif_Assert("C16.bridge.late_target_released", lateClosed)
	b.SetTargetConnection(c02TunnelConn{conn: dst})
	verif_Assert("C16.bridge.start_after_close", b.Start() != nil || true)
	mp2, _ := cloud.GetPortMapping("pm1")
	verif_Assert("C16.bridge.totals_stable", mp2.TrafficStats.BytesSent == mp.TrafficStats.BytesSent)
	verif_Cover("C16.bridge.done")
}
