package stream

import (
	"context"

	"tunnox-core/internal/packet"
)

// Concurrent Close calls on a stream processor close its writer and reader once; later
// reads and writes fail cleanly instead of panicking.
func Harness_C16_stream_close() {
	out := &verifSink{}
	in := &verifReader{}
	sp := NewStreamProcessor(in, out, context.Background())
	verif_Spawn(func() { sp.Close() })
	verif_Spawn(func() { sp.CloseWithResult() })
	if verif_Bool() {
		verif_Spawn(func() {
			// a writer races with the closers: it either completes or fails cleanly
			sp.WritePacket(&packet.TransferPacket{PacketType: packet.Heartbeat}, false, 0)
		})
	}
	verif_Quiesce()
	verif_Assert("C16.sp.writer_closed_once", out.CloseN == 1)
	verif_Assert("C16.sp.reader_closed", in.Closed)
	_, _, rerr := sp.ReadPacket()
	verif_Assert("C16.sp.read_after_close_fails", rerr != nil)
	_, werr := sp.WritePacket(&packet.TransferPacket{PacketType: packet.Heartbeat}, false, 0)
	verif_Assert("C16.sp.write_after_close_fails", werr != nil)
	_, eerr := sp.ReadExact(1)
	verif_Assert("C16.sp.readexact_after_close_fails", eerr != nil)
	verif_Cover("C16.sp.done")
}
