package server

import (
	"context"
	"encoding/json"
	"errors"
	"time"

	"tunnox-core/internal/cloud/models"
	"tunnox-core/internal/cloud/repos"
	"tunnox-core/internal/cloud/services/conncode"
	"tunnox-core/internal/cloud/stats"
	"tunnox-core/internal/command"
	"tunnox-core/internal/core/storage/memory"
	"tunnox-core/internal/core/types"
	"tunnox-core/internal/packet"
	"tunnox-core/internal/protocol/session"
	"tunnox-core/internal/stream"
)

const (
	c11A = int64(1001) // owner: listen client of pm1, creator of the code and of the domain mapping
	c11B = int64(1002) // other party: target client of pm1
	c11S = int64(1003) // stranger
)

// ---- doubles ----------------------------------------------------------------------------------

// map-backed port-mapping store: conncode's PortMappingService, its repository view and the
// session's cloud control all look at the same mappings
type c11Maps struct {
	m     map[string]*models.PortMapping
	order []string
	n     int
	stall time.Duration // the next read takes this long (a slow storage round trip), once
}

func (c *c11Maps) slow() {
	if d := c.stall; d > 0 {
		c.stall = 0
		time.Sleep(d)
	}
}

func (c *c11Maps) GetPortMapping(id string) (*models.PortMapping, error) {
	c.slow()
	if mp, ok := c.m[id]; ok {
		cp := *mp
		return &cp, nil
	}
	return nil, errors.New("mapping not found")
}
func (c *c11Maps) put(mp *models.PortMapping) {
	if _, ok := c.m[mp.ID]; !ok {
		c.order = append(c.order, mp.ID)
	}
	cp := *mp
	c.m[mp.ID] = &cp
}
func (c *c11Maps) CreatePortMapping(mp *models.PortMapping) (*models.PortMapping, error) {
	c.n++
	mp.ID = "pm-new" + string(rune('0'+c.n))
	c.put(mp)
	return mp, nil
}
func (c *c11Maps) UpdatePortMapping(mp *models.PortMapping) error { c.put(mp); return nil }
func (c *c11Maps) DeletePortMapping(id string) error {
	delete(c.m, id)
	return nil
}
func (c *c11Maps) GetClientPortMappings(key string) ([]*models.PortMapping, error) {
	c.slow()
	var out []*models.PortMapping
	for _, id := range c.order {
		mp, ok := c.m[id]
		if !ok {
			continue
		}
		if key == c11Key(mp.ListenClientID) || key == c11Key(mp.TargetClientID) {
			cp := *mp
			out = append(out, &cp)
		}
	}
	return out, nil
}

func c11Key(id int64) string {
	switch id {
	case c11A:
		return "1001"
	case c11B:
		return "1002"
	case c11S:
		return "1003"
	}
	return "?"
}

// repository view (conncode lists a client's mappings through it)
type c11Repo struct {
	repos.IPortMappingRepository
	maps *c11Maps
	// the per-client index as the real repository keeps it: written when a mapping is created and
	// not rewritten when its parties change later - a former party's index may still list a mapping
	stale map[string][]string
}

func (r c11Repo) GetClientPortMappings(key string) ([]*models.PortMapping, error) {
	out, err := r.maps.GetClientPortMappings(key)
	for _, id := range r.stale[key] {
		if mp, ok := r.maps.m[id]; ok {
			cp := *mp
			out = append(out, &cp)
		}
	}
	return out, err
}
func (r c11Repo) GetPortMapping(id string) (*models.PortMapping, error) { return r.maps.GetPortMapping(id) }

// conncode.PortMappingService view
type c11Svc struct{ *c11Maps }

func (c c11Svc) UpdatePortMappingStats(id string, st interface{}) error { return nil }

// session cloud-control view
type c11SessCloud struct{ *c11Maps }

func (c c11SessCloud) UpdatePortMappingStats(id string, st *stats.TrafficStats) error {
	if mp, ok := c.m[id]; ok {
		mp.TrafficStats = *st
	}
	return nil
}
func (c c11SessCloud) GetClientPortMappings(id int64) ([]*models.PortMapping, error) {
	return c.c11Maps.GetClientPortMappings(c11Key(id))
}
func (c c11SessCloud) TouchClient(id int64)                                         {}
func (c c11SessCloud) DisconnectClient(id int64) error                              { return nil }
func (c c11SessCloud) DisconnectClientIfMatch(id int64, n, cn string) (bool, error) { return false, nil }
func (c c11SessCloud) EnsureClientOnline(id int64, n, cn, ip, p, v string) error    { return nil }

// auth-handler-side cloud control (ConfigGet reads the client's mappings through it)
type c11Cloud struct {
	c03Cloud
	maps *c11Maps
}

func (c *c11Cloud) GetClientPortMappings(id int64) ([]*models.PortMapping, error) {
	return c.maps.GetClientPortMappings(c11Key(id))
}
func (c *c11Cloud) GetPortMapping(id string) (*models.PortMapping, error) { return c.maps.GetPortMapping(id) }

// connection authentication is C03's subject: the real handshake path, a stub verdict
type c11Auth struct{ *ServerAuthHandler }

func (c11Auth) HandleHandshake(conn session.ControlConnectionInterface, req *packet.HandshakeRequest) (*packet.HandshakeResponse, error) {
	conn.SetClientID(req.ClientID)
	conn.SetAuthenticated(true)
	return &packet.HandshakeResponse{Success: true, ClientID: req.ClientID}, nil
}

// ---- the world ----------------------------------------------------------------------------------

type c11World struct {
	ctx     context.Context
	sm      *session.SessionManager
	maps    *c11Maps
	codes   *repos.ConnectionCodeRepository
	domains *repos.HTTPDomainMappingRepository
	svc     *conncode.Service
	n       int
}

func (w *c11World) newConn(client int64) (*c03RW, string) {
	w.n++
	id := "k" + string(rune('0'+w.n))
	rw := &c03RW{verifConn: verifConn{In: &verifReader{}, Out: &verifSink{}}, id: id, ip: []byte{10, 0, 0, byte(w.n)}}
	_, err := w.sm.CreateConnection(rw, rw)
	verif_Assert("C11.setup.conn", err == nil)
	if client != 0 {
		payload, _ := json.Marshal(&packet.HandshakeRequest{ClientID: client, ConnectionType: "control"})
		herr := w.sm.HandlePacket(&types.StreamPacket{ConnectionID: id, Timestamp: time.Now(), Packet: &packet.TransferPacket{PacketType: packet.Handshake, Payload: payload}})
		verif_Assert("C11.setup.handshake", herr == nil)
	}
	return rw, id
}

// every request field any dispatched command reads; unknown fields are ignored by each handler
type c11Body struct {
	MappingID      string `json:"mapping_id"`
	Code           string `json:"code"`
	ListenAddress  string `json:"listen_address"`
	TargetAddress  string `json:"target_address"`
	ActivationTTL  int    `json:"activation_ttl"`
	MappingTTL     int    `json:"mapping_ttl"`
	TargetURL      string `json:"target_url"`
	Subdomain      string `json:"subdomain"`
	BaseDomain     string `json:"base_domain"`
	TunnelID       string `json:"tunnel_id"`
	TargetClientID int64  `json:"target_client_id"`
	TargetHost     string `json:"target_host"`
	TargetPort     int    `json:"target_port"`
	Domain         string `json:"domain"`
	QType          int    `json:"qtype"`
	QueryID        string `json:"query_id"`
	DNSServer      string `json:"dns_server"`
	BytesSent      int64  `json:"bytes_sent"`
	BytesReceived  int64  `json:"bytes_received"`
	RequestID      string `json:"request_id"`
	Success        bool   `json:"success"`
}

// every identifying field any response carries
type c11Item struct {
	MappingID  string `json:"mapping_id"`
	Code       string `json:"code"`
	FullDomain string `json:"full_domain"`
}
type c11Data struct {
	c11Item
	Mappings []c11Item `json:"mappings"`
	Mapping  *c11Item  `json:"mapping"`
	Codes    []c11Item `json:"codes"`
}
type c11Reply struct {
	Success bool            `json:"success"`
	Data    json.RawMessage `json:"data"`
	c11Data
}

type c11Seen struct {
	packets  int
	success  bool
	tunnelRq bool
	ids      []string
}

func (s *c11Seen) note(d *c11Data) {
	add := func(it c11Item) { s.ids = append(s.ids, it.MappingID, it.Code, it.FullDomain) }
	add(d.c11Item)
	for _, it := range d.Mappings {
		add(it)
	}
	if d.Mapping != nil {
		add(*d.Mapping)
	}
	for _, it := range d.Codes {
		add(it)
	}
}

func (s *c11Seen) has(id string) bool {
	for _, x := range s.ids {
		if x == id {
			return true
		}
	}
	return false
}

// decode everything the server wrote to a connection since `from`
func (w *c11World) seen(rw *c03RW, from int) *c11Seen {
	s := &c11Seen{}
	out := rw.Out.Buf[from:]
	if len(out) == 0 {
		return s
	}
	rd := stream.NewStreamProcessor(&verifReader{Data: out}, nil, w.ctx)
	for {
		pkt, _, err := rd.ReadPacket()
		if err != nil || pkt == nil {
			break
		}
		s.packets++
		if pkt.CommandPacket == nil {
			continue
		}
		if pkt.CommandPacket.CommandType == packet.TunnelOpenRequestCmd {
			s.tunnelRq = true
		}
		if pkt.PacketType.IsJsonCommand() && (pkt.CommandPacket.CommandType == packet.DNSResolve || pkt.CommandPacket.CommandType == packet.DNSQuery) {
			continue // a forwarded DNS request carries the requester's own body, not server state
		}
		var r c11Reply
		if json.Unmarshal([]byte(pkt.CommandPacket.CommandBody), &r) != nil {
			continue
		}
		if r.Success {
			s.success = true
		}
		s.note(&r.c11Data)
		if len(r.Data) > 0 {
			var d c11Data
			if json.Unmarshal(r.Data, &d) == nil {
				s.note(&d)
			}
		}
	}
	return s
}

// c11Setup builds the world: the production command wiring on a real SessionManager, the
// victims' objects and three authenticated control connections (owner, other party, stranger).
func c11Setup(ctx context.Context) (w *c11World, connA, connB, connS *c03RW, code *models.TunnelConnectionCode, dom *repos.HTTPDomainMapping) {
	w = &c11World{ctx: ctx, maps: &c11Maps{m: map[string]*models.PortMapping{}}}
	w.sm = session.NewSessionManager(nil, ctx)
	w.sm.SetNodeID("node-A")
	auth := c11Auth{NewServerAuthHandler(&c11Cloud{maps: w.maps}, w.sm, nil, nil, nil, nil)}
	w.sm.SetAuthHandler(auth)
	w.sm.SetCloudControl(c11SessCloud{w.maps})
	mem := memory.New(ctx)
	w.codes = repos.NewConnectionCodeRepository(repos.NewRepository(mem))
	w.svc = conncode.NewService(w.codes, c11Svc{w.maps}, c11Repo{maps: w.maps, stale: map[string][]string{"1003": {"pm1"}}}, nil, ctx)
	w.domains = repos.NewHTTPDomainMappingRepository(repos.NewRepository(mem), []string{"t.net"})

	// the production wiring of setupConnectionCodeCommands
	registry := command.NewCommandRegistry(ctx)
	executor := command.NewCommandExecutor(registry, ctx)
	executor.SetSession(w.sm)
	verif_Assert("C11.setup.executor", w.sm.SetCommandExecutor(executor) == nil)
	verif_Assert("C11.setup.h1", NewConnectionCodeCommandHandlers(w.svc, w.sm).RegisterHandlers(registry) == nil)
	verif_Assert("C11.setup.h2", NewConfigCommandHandlers(auth.ServerAuthHandler, w.sm).RegisterHandlers(registry) == nil)
	verif_Assert("C11.setup.h3", NewMappingCommandHandlers(w.svc, w.sm).RegisterHandlers(registry) == nil)
	verif_Assert("C11.setup.h4", NewHTTPDomainCommandHandlers(w.sm, w.domains).RegisterHandlers(registry) == nil)

	// ---- the victims' objects ------------------------------------------------------------------
	future := time.Now().Add(time.Hour)
	w.maps.put(&models.PortMapping{ID: "pm1", ListenClientID: c11A, TargetClientID: c11B, Status: models.MappingStatusActive, ExpiresAt: &future,
		Protocol: models.ProtocolSOCKS, TargetHost: "127.0.0.1", TargetPort: 80, TrafficStats: stats.TrafficStats{BytesSent: 7, BytesReceived: 9}})
	// a mapping the server itself listens for (HTTP mappings created through the management API
	// have no listening client): its listen client id is 0, which is also the id of a connection
	// that never authenticated
	w.maps.put(&models.PortMapping{ID: "pm0", ListenClientID: 0, TargetClientID: c11B, Status: models.MappingStatusActive, ExpiresAt: &future,
		Protocol: models.ProtocolHTTP, TargetHost: "127.0.0.1", TargetPort: 8080, TrafficStats: stats.TrafficStats{BytesSent: 5, BytesReceived: 6}})
	var cerr error
	code, cerr = w.svc.CreateConnectionCode(&conncode.CreateRequest{TargetClientID: c11A, TargetAddress: "tcp://127.0.0.1:22",
		ActivationTTL: time.Hour, MappingDuration: time.Hour, CreatedBy: "client-1001"})
	verif_Assert("C11.setup.code", cerr == nil && code != nil)
	var derr error
	dom, derr = w.domains.CreateMapping(ctx, c11A, "app", "t.net", "127.0.0.1", 8080)
	verif_Assert("C11.setup.domain", derr == nil && dom != nil)

	connA, _ = w.newConn(c11A)
	connB, _ = w.newConn(c11B)
	connS, _ = w.newConn(c11S)
	verif_Quiesce()

	return
}

// One command packet of ANY command type (the type byte is a solver variable, so the whole
// dispatch table - special cases, registered handlers, unregistered types - is covered) from a
// connection of any identity, with attacker-chosen sender/receiver/token fields and a body
// naming the victim's objects.
func Harness_C11_any_command() {
	verif_ClockSet(int64(1) << 60)
	verif_UseTapeRandom()
	ctx, stop := context.WithCancel(context.Background())
	w, connA, connB, connS, code, dom := c11Setup(ctx)
	defer func() { w.sm.Close(); stop() }()

	// ---- the command under test --------------------------------------------------------------
	who := []int64{0, c11A, c11B, c11S}[verif_Choose(4)]
	var rw *c03RW
	var id string
	switch who {
	case c11A:
		rw, id = connA, connA.id
	case c11B:
		rw, id = connB, connB.id
	case c11S:
		rw, id = connS, connS.id
	default:
		rw, id = w.newConn(who)
		verif_Quiesce()
	}
	body := &c11Body{
		MappingID: []string{"pm1", dom.ID, "nope", "pm0"}[verif_Choose(4)],
		Code:      code.Code, ListenAddress: "127.0.0.1:7000", TargetAddress: "tcp://127.0.0.1:23", ActivationTTL: 600, MappingTTL: 600,
		TargetURL: "http://127.0.0.1:3000", Subdomain: "fresh", BaseDomain: "t.net",
		TunnelID: "tun-9", TargetClientID: []int64{-1, c11A, c11B, c11S}[verif_Choose(4)], TargetHost: "example.org", TargetPort: 443,
		Domain: "example.org", QType: 1, QueryID: "q1", DNSServer: "9.9.9.9:53",
		BytesSent: int64(verif_Byte()) + 1, BytesReceived: int64(verif_Byte()),
	}
	bodyJSON, _ := json.Marshal(body)
	ptype := packet.JsonCommand
	if verif_Bool() {
		ptype = packet.CommandResp
	}
	cmd := &packet.CommandPacket{
		CommandType: packet.CommandType(verif_Byte()),
		CommandId:   "cmd-1",
		Token:       string([]byte{verif_Byte()}),
		SenderId:    string([]byte{verif_Byte(), verif_Byte()}),
		ReceiverId:  string([]byte{verif_Byte(), verif_Byte()}),
		CommandBody: string(bodyJSON),
	}
	fromA, fromB, fromS, fromRW := len(connA.Out.Buf), len(connB.Out.Buf), len(connS.Out.Buf), len(rw.Out.Buf)
	w.sm.HandlePacket(&types.StreamPacket{ConnectionID: id, Timestamp: time.Now(), Packet: &packet.TransferPacket{PacketType: ptype, CommandPacket: cmd}})
	verif_Quiesce()

	// ---- what the statement allows ---------------------------------------------------------------
	partyMapping := who == c11A || who == c11B
	owner := who == c11A
	reply := w.seen(rw, fromRW)

	// (1) unauthenticated: refused, and nothing reaches anybody else
	if who == 0 {
		// server-wide information that is no client's state: the base-domain list, whether a
		// sub-domain name is free, a random name suggestion
		public := cmd.CommandType == packet.HTTPDomainGetBaseDomains || cmd.CommandType == packet.HTTPDomainCheckSubdomain || cmd.CommandType == packet.HTTPDomainGenSubdomain
		verif_Assert("C11.unauth.no_success_reply", public || !reply.success)
		verif_Assert("C11.unauth.reaches_nobody", len(connA.Out.Buf) == fromA && len(connB.Out.Buf) == fromB && len(connS.Out.Buf) == fromS)
	}
	// (1b) a tunnel-open request goes to the mapping's own target client, for the mapping's listen
	// client only - whatever target the packet claims
	rqA, rqB, rqS := w.seen(connA, fromA).tunnelRq, w.seen(connB, fromB).tunnelRq, w.seen(connS, fromS).tunnelRq
	verif_Assert("C11.tunnel_request.only_to_mapping_target", !rqA && !rqS)
	verif_Assert("C11.tunnel_request.only_for_listen_client", verif_Implies(rqB, who == c11A && body.MappingID == "pm1"))
	if who == c11A && cmd.CommandType == packet.SOCKS5TunnelRequestCmd && body.MappingID == "pm1" {
		verif_Assert("C11.tunnel_request.reaches_target", rqB)
		verif_Cover("C11.socks5_by_listen_client")
	}
	// (1c) the server-listened mapping belongs to its target client only
	if who != c11B {
		p0, e0 := w.maps.GetPortMapping("pm0")
		verif_Assert("C11.server_mapping.kept", e0 == nil && p0 != nil && p0.TargetClientID == c11B && p0.ListenClientID == 0)
		verif_Assert("C11.server_mapping.traffic_unchanged", p0.TrafficStats.BytesSent == 5 && p0.TrafficStats.BytesReceived == 6)
		verif_Assert("C11.server_mapping.not_disclosed", !reply.has("pm0"))
	}
	// (2) the victims' objects are untouched unless the requester is a party
	pm, perr := w.maps.GetPortMapping("pm1")
	if !partyMapping {
		verif_Assert("C11.mapping.kept", perr == nil && pm != nil)
		verif_Assert("C11.mapping.unchanged", pm.ListenClientID == c11A && pm.TargetClientID == c11B && !pm.IsRevoked && pm.Status == models.MappingStatusActive)
		verif_Assert("C11.mapping.traffic_unchanged", pm.TrafficStats.BytesSent == 7 && pm.TrafficStats.BytesReceived == 9)
		verif_Assert("C11.mapping.not_disclosed", !reply.has("pm1"))
		// a tunnel-open request reaches the target client only for the mapping's listen client
		verif_Assert("C11.mapping.no_tunnel_request", !w.seen(connB, fromB).tunnelRq)
	}
	if !owner {
		c2, gerr := w.codes.GetByCode(code.Code)
		verif_Assert("C11.code.kept", gerr == nil && c2 != nil && !c2.IsRevoked && c2.TargetClientID == c11A)
		// whoever holds the code may activate it - but only as itself
		verif_Assert("C11.code.activation_identity", verif_Implies(c2.IsActivated, who != 0 && c2.ActivatedBy != nil && *c2.ActivatedBy == who))
		d2, gerr2 := w.domains.GetMapping(ctx, dom.ID)
		verif_Assert("C11.domain.kept", gerr2 == nil && d2 != nil && d2.ClientID == c11A && d2.FullDomain == "app.t.net")
		verif_Assert("C11.domain.not_disclosed", !reply.has(dom.ID) && !reply.has("app.t.net"))
		verif_Assert("C11.code.not_listed", cmd.CommandType == packet.ConnectionCodeActivate || !reply.has(code.Code))
	}
	// (3) whatever was created belongs to the connection's identity, never to a claimed one
	for _, mid := range w.maps.order {
		mp, ok := w.maps.m[mid]
		if mid == "pm1" || mid == "pm0" || !ok {
			continue
		}
		verif_Assert("C11.new_mapping.identity", who != 0 && mp.ListenClientID == who)
	}
	for _, cl := range []int64{0, c11A, c11B, c11S} {
		list, _ := w.codes.ListByTargetClient(cl)
		for _, c := range list {
			if c.ID == code.ID {
				verif_Assume(c.Code == code.Code) // ideal randomness: record ids do not collide
			}
			if c.Code != code.Code {
				verif_Assert("C11.new_code.identity", who != 0 && c.TargetClientID == who && cl == who)
			}
		}
		dl, _ := w.domains.GetMappingsByClientID(ctx, cl)
		for _, d := range dl {
			if d.ID != dom.ID {
				verif_Assert("C11.new_domain.identity", who != 0 && d.ClientID == who && cl == who)
			}
		}
	}
	// vacuity guards: parties do get their data
	if partyMapping && cmd.CommandType == packet.MappingGet && ptype == packet.JsonCommand && body.MappingID == "pm1" {
		verif_Assert("C11.party.gets_mapping", reply.success && reply.has("pm1"))
		verif_Cover("C11.party_get")
	}
	if who == c11S && cmd.CommandType == packet.MappingDelete {
		verif_Cover("C11.stranger_delete")
	}
	if cmd.CommandType == packet.TunnelTrafficReport {
		verif_Cover("C11.traffic_report")
	}
	if cmd.CommandType == packet.HTTPDomainCreate {
		verif_Cover("C11.domain_create")
	}
	verif_Cover("C11.done")
}

// Two commands in sequence: a party reads one of its objects (mapping details, mapping list, code
// list, domain list, configuration), then a stranger - or an unauthenticated connection - sends
// the same command with the same body. What the first answer contained must not leak into the
// second one (caches keyed by object instead of by requester, reused response buffers, ...).
func Harness_C11_sequence() {
	verif_ClockSet(int64(1) << 60)
	verif_UseTapeRandom()
	ctx, stop := context.WithCancel(context.Background())
	w, connA, connB, connS, code, dom := c11Setup(ctx)
	defer func() { w.sm.Close(); stop() }()
	ct := []packet.CommandType{packet.MappingGet, packet.MappingList, packet.ConnectionCodeList, packet.HTTPDomainList, packet.ConfigGet}[verif_Choose(5)]
	body := &c11Body{MappingID: "pm1", Code: code.Code}
	bodyJSON, _ := json.Marshal(body)
	send := func(rw *c03RW, n string) *c11Seen {
		from := len(rw.Out.Buf)
		w.sm.HandlePacket(&types.StreamPacket{ConnectionID: rw.id, Timestamp: time.Now(), Packet: &packet.TransferPacket{PacketType: packet.JsonCommand,
			CommandPacket: &packet.CommandPacket{CommandType: ct, CommandId: n, CommandBody: string(bodyJSON)}}})
		verif_Quiesce()
		return w.seen(rw, from)
	}
	first := connA
	if ct == packet.MappingGet && verif_Bool() {
		first = connB // the other party of the mapping
	}
	late := false
	if (ct == packet.MappingGet || ct == packet.MappingList) && verif_Bool() {
		// the first command's storage read outlasts the executor's reply timeout: the dispatcher gives
		// up on it, and its handler finishes only after the next command has been dispatched - its
		// late reply must still go to its own connection
		late = true
		w.maps.stall = 31 * time.Second
		w.sm.HandlePacket(&types.StreamPacket{ConnectionID: first.id, Timestamp: time.Now(), Packet: &packet.TransferPacket{PacketType: packet.JsonCommand,
			CommandPacket: &packet.CommandPacket{CommandType: ct, CommandId: "cmd-1", CommandBody: string(bodyJSON)}}})
		verif_Assert("C11.seq.setup.stalled", w.maps.stall == 0)
		verif_Cover("C11.seq.late_handler")
	} else {
		r1 := send(first, "cmd-1")
		if ct == packet.MappingGet {
			verif_Assert("C11.seq.party_served", r1.success && r1.has("pm1"))
		}
		// a moment later (well inside any short-lived cache) somebody else asks the same
		verif_ClockSet(int64(1)<<60 + int64(verif_Byte())*int64(10*time.Millisecond))
	}
	var second *c03RW
	if verif_Bool() {
		second = connS
	} else {
		second, _ = w.newConn(0)
		verif_Quiesce()
	}
	from2 := len(second.Out.Buf)
	r2 := send(second, "cmd-2")
	if late {
		// let the stalled handler of the first command finish (its storage read returns after 31 s)
		time.Sleep(time.Minute)
		verif_Quiesce()
		r2 = w.seen(second, from2)
	}
	verif_Assert("C11.seq.mapping_not_disclosed", !r2.has("pm1"))
	verif_Assert("C11.seq.code_not_disclosed", !r2.has(code.Code))
	verif_Assert("C11.seq.domain_not_disclosed", !r2.has(dom.ID) && !r2.has("app.t.net"))
	if second != connS {
		verif_Assert("C11.seq.unauth_refused", !r2.success)
	}
	verif_Cover("C11.seq.done")
}

// A used code replayed: the client holding a code activates it (and gets its mapping); a moment
// later - seconds to minutes - somebody else on its own authenticated connection, or an
// unauthenticated connection, sends the same activation (same code, same or another listen
// address). It is refused and learns nothing about the mapping the first activation created; the
// mapping stays the activator's.
func Harness_C11_replayed_activation() {
	verif_ClockSet(int64(1) << 60)
	verif_UseTapeRandom()
	ctx, stop := context.WithCancel(context.Background())
	w, _, connB, connS, code, _ := c11Setup(ctx)
	defer func() { w.sm.Close(); stop() }()
	send := func(rw *c03RW, n, listen string) *c11Seen {
		b, _ := json.Marshal(&c11Body{Code: code.Code, ListenAddress: listen})
		from := len(rw.Out.Buf)
		w.sm.HandlePacket(&types.StreamPacket{ConnectionID: rw.id, Timestamp: time.Now(), Packet: &packet.TransferPacket{PacketType: packet.JsonCommand,
			CommandPacket: &packet.CommandPacket{CommandType: packet.ConnectionCodeActivate, CommandId: n, CommandBody: string(b)}}})
		verif_Quiesce()
		return w.seen(rw, from)
	}
	known := len(w.maps.order)
	r1 := send(connB, "cmd-1", "127.0.0.1:7000")
	verif_Assert("C11.replay.setup.activated", r1.success && len(w.maps.order) == known+1)
	newID := w.maps.order[known]
	verif_Assert("C11.replay.setup.activator_gets_mapping", r1.has(newID))
	// 0 s, 30 s, 90 s or 150 s later
	verif_ClockSet(int64(1)<<60 + int64(verif_Choose(4))*int64(time.Minute) - int64(30*time.Second)*int64(verif_Choose(2)))
	var second *c03RW
	if verif_Bool() {
		second = connS
		verif_Cover("C11.replay.by_stranger")
	} else {
		second, _ = w.newConn(0)
		verif_Quiesce()
		verif_Cover("C11.replay.by_unauthenticated")
	}
	listen := []string{"127.0.0.1:7000", "127.0.0.1:7001"}[verif_Choose(2)]
	r2 := send(second, "cmd-2", listen)
	verif_Assert("C11.replay.refused", !r2.success)
	verif_Assert("C11.replay.mapping_not_disclosed", !r2.has(newID) && !r2.has("pm1"))
	verif_Assert("C11.replay.no_second_mapping", len(w.maps.order) == known+1)
	mp, err := w.maps.GetPortMapping(newID)
	verif_Assert("C11.replay.mapping_stays_the_activators", err == nil && mp != nil && mp.ListenClientID == c11B)
	verif_Cover("C11.replay.done")
}
