package server

import (
	"context"
	"encoding/json"
	"errors"
	"fmt"
	"net"
	"time"

	"tunnox-core/internal/cloud/managers"
	"tunnox-core/internal/cloud/models"
	"tunnox-core/internal/core/types"
	"tunnox-core/internal/packet"
	"tunnox-core/internal/protocol/session"
	"tunnox-core/internal/security"
	"tunnox-core/internal/stream"
)

// ---- doubles --------------------------------------------------------------------------------

type c03Cloud struct {
	managers.CloudControlAPI
	cfgs   map[int64]*models.ClientConfig
	nextID int64
}

func (c *c03Cloud) GetClientConfig(id int64) (*models.ClientConfig, error) {
	if cfg, ok := c.cfgs[id]; ok {
		return cfg, nil
	}
	return nil, errors.New("not found")
}
func (c *c03Cloud) GenerateAnonymousCredentials() (*models.Client, error) {
	c.nextID++
	return &models.Client{ID: c.nextID, SecretKeyPlaintext: "anon"}, nil
}
func (c *c03Cloud) ConnectClient(id int64, node, conn, ip, proto, ver string) error { return nil }
func (c *c03Cloud) GetClientPortMappings(id int64) ([]*models.PortMapping, error) { return nil, nil }

// c03RW: a transport with its own id and remote address
type c03RW struct {
	verifConn
	id   string
	ip   net.IP
	addr net.Addr // when set: the transport reports this address instead (string-backed adapters)
}

func (c *c03RW) GetConnectionID() string { return c.id }
func (c *c03RW) RemoteAddr() net.Addr {
	if c.addr != nil {
		return c.addr
	}
	return &net.TCPAddr{IP: c.ip, Port: 4000}
}

// c03StrAddr is a net.Addr that only has a textual form (as the websocket adapter's)
type c03StrAddr string

func (a c03StrAddr) Network() string { return "ws" }
func (a c03StrAddr) String() string  { return string(a) }

type c03Conn struct {
	rw     *c03RW
	read   int // bytes of the sink already decoded
	authed bool
	as     int64
	chal   string   // latest unconsumed challenge issued on this connection
	old    []string // challenges already consumed
	gone   bool     // evicted by a duplicate login
}

type c03World struct {
	ctx   context.Context
	stop  context.CancelFunc
	sm    *session.SessionManager
	mgr   *security.SecretKeyManager
	cloud *c03Cloud
	conns []*c03Conn
	all   []string // every challenge issued so far
}

var c03Secrets = map[int64]string{1001: "s1", 1002: "s2", 1003: "s3"}

// close stops every background goroutine of the world (the native replay runs in a
// synctest bubble, which waits for them).
func (w *c03World) close() {
	w.sm.Close()
	w.stop()
}

func newC03World(ctx context.Context, stop context.CancelFunc, bf *security.BruteForceProtector, ipm *security.IPManager) *c03World {
	// master key: 32 bytes; under the engine the manager's crypto is idealised, natively it is real
	mgr, merr := security.NewSecretKeyManager(&security.SecretKeyConfig{MasterKey: "MDEyMzQ1Njc4OWFiY2RlZjAxMjM0NTY3ODlhYmNkZWY="})
	verif_Assert("C03.setup.mgr", merr == nil)
	w := &c03World{ctx: ctx, stop: stop, mgr: mgr}
	w.sm = session.NewSessionManager(nil, ctx)
	w.sm.SetNodeID("node-A")
	past := time.Now().Add(-time.Hour)
	w.cloud = &c03Cloud{cfgs: map[int64]*models.ClientConfig{}, nextID: 2000}
	for id, s := range c03Secrets {
		enc, _ := w.mgr.Encrypt(s)
		cfg := &models.ClientConfig{ID: id, SecretKeyEncrypted: enc}
		if id == 1003 {
			cfg.ExpiresAt = &past
		}
		w.cloud.cfgs[id] = cfg
	}
	w.sm.SetAuthHandler(NewServerAuthHandler(w.cloud, w.sm, bf, ipm, nil, w.mgr))
	for i := 0; i < 2; i++ {
		rw := &c03RW{verifConn: verifConn{In: &verifReader{}, Out: &verifSink{}}, id: fmt.Sprintf("c%d", i), ip: net.IPv4(10, 0, 0, byte(1+i))}
		_, err := w.sm.CreateConnection(rw, rw)
		verif_Assert("C03.setup.conn", err == nil)
		w.conns = append(w.conns, &c03Conn{rw: rw})
	}
	return w
}

// send delivers one handshake message through the real dispatcher and decodes the reply
// the server wrote to the connection.
func (w *c03World) send(c *c03Conn, req *packet.HandshakeRequest) (*packet.HandshakeResponse, error) {
	payload, _ := json.Marshal(req)
	err := w.sm.HandlePacket(&types.StreamPacket{ConnectionID: c.rw.id, Timestamp: time.Now(),
		Packet: &packet.TransferPacket{PacketType: packet.Handshake, Payload: payload}})
	out := c.rw.Out.Buf[c.read:]
	c.read = len(c.rw.Out.Buf)
	if len(out) == 0 {
		return nil, err
	}
	rd := stream.NewStreamProcessor(&verifReader{Data: out}, nil, w.ctx)
	pkt, _, rerr := rd.ReadPacket()
	verif_Assert("C03.reply.decodes", rerr == nil && pkt != nil)
	resp := &packet.HandshakeResponse{}
	verif_Assert("C03.reply.json", json.Unmarshal(pkt.Payload, resp) == nil)
	return resp, err
}

func (w *c03World) checkState(tag string) {
	for _, c := range w.conns {
		cc := w.sm.GetControlConnection(c.rw.id)
		if cc == nil {
			verif_Assert("C03."+tag+".absent_not_authed", !c.authed)
			continue
		}
		verif_Assert("C03."+tag+".authenticated_iff_proven", cc.IsAuthenticated() == c.authed)
		if c.authed {
			verif_Assert("C03."+tag+".identity", cc.GetClientID() == c.as)
		}
	}
	for _, id := range []int64{1001, 1002, 1003, 1004} {
		cc := w.sm.GetControlConnectionByClientID(id)
		if cc == nil {
			continue
		}
		ok := false
		for _, c := range w.conns {
			if c.rw.id == cc.GetConnID() && c.authed && c.as == id {
				ok = true
			}
		}
		verif_Assert("C03."+tag+".control_channel_is_proven", ok)
	}
}

// success on connection c as id: a duplicate login evicts the client's other connection
func (w *c03World) becomes(c *c03Conn, id int64) {
	for _, o := range w.conns {
		if o != c && o.authed && o.as == id {
			o.authed, o.as, o.gone = false, 0, true
		}
	}
	c.authed, c.as = true, id
}

// Arbitrary sequences of handshake messages on two connections: a connection is
// authenticated as X only after a fresh registration or a correct response to the latest
// challenge issued on it; failed, replayed or out-of-order messages change nothing.
func Harness_C03_handshakes() {
	verif_ClockSet(int64(1) << 60)
	ctx, stop := context.WithCancel(context.Background())
	w := newC03World(ctx, stop, nil, nil)
	defer w.close()
	verif_UseTapeRandom() // from here on the server's challenges come from the tape
	ids := []int64{1001, 1002, 1003, 1004}
	n := verif_Bound("messages")
	for i := 0; i < n; i++ {
		c := w.conns[verif_Choose(2)]
		if c.gone {
			continue
		}
		switch verif_Choose(3) {
		case 0: // first connection: the server issues a brand-new identity
			resp, err := w.send(c, &packet.HandshakeRequest{ClientID: 0, Token: "new-client", ConnectionType: "control"})
			verif_Assert("C03.first.ok", err == nil && resp != nil && resp.Success && resp.ClientID == w.cloud.nextID)
			w.becomes(c, resp.ClientID)
		case 1: // phase 1 for some client id
			id := ids[verif_Choose(4)]
			resp, err := w.send(c, &packet.HandshakeRequest{ClientID: id, ConnectionType: "control"})
			if id == 1001 || id == 1002 {
				verif_Assert("C03.p1.challenge", err == nil && resp != nil && !resp.Success && resp.NeedResponse && resp.Challenge != "")
				for _, o := range w.all {
					verif_Assume(!verif_StrEq(o, resp.Challenge)) // challenges are 32 random bytes: pairwise distinct
				}
				w.all = append(w.all, resp.Challenge)
				c.chal = resp.Challenge
			} else {
				verif_Assert("C03.p1.refused", err != nil && (resp == nil || !resp.Success))
				verif_Cover("C03.refused")
			}
		case 2: // phase 2 for some client id with some response
			id := ids[verif_Choose(4)]
			kind := verif_Choose(5)
			var response string
			valid := false
			switch kind {
			case 0: // correct response to the latest challenge of this connection
				if c.chal == "" {
					continue
				}
				response = w.mgr.ComputeResponse(c03Secrets[id], c.chal)
				valid = id == 1001 || id == 1002
			case 1: // replay: correct response to an already consumed challenge
				if len(c.old) == 0 {
					continue
				}
				response = w.mgr.ComputeResponse(c03Secrets[id], c.old[0])
			case 2: // response computed with another client's secret
				if c.chal == "" {
					continue
				}
				other := int64(1001)
				if id == 1001 {
					other = 1002
				}
				response = w.mgr.ComputeResponse(c03Secrets[other], c.chal)
			case 3: // a proper prefix of the correct response (even length, as hex text has)
				if c.chal == "" {
					continue
				}
				full := w.mgr.ComputeResponse(c03Secrets[id], c.chal)
				if len(full) < 4 {
					continue
				}
				response = full[:2] // one byte of the MAC
				if verif_Bool() {
					response = full[:(len(full)-2)&^1] // all but the last byte
				}
				verif_Cover("C03.truncated_response_sent")
			default: // arbitrary bytes
				response = string(verif_Bytes(3))
			}
			resp, err := w.send(c, &packet.HandshakeRequest{ClientID: id, ChallengeResponse: response, ConnectionType: "control"})
			if (id == 1001 || id == 1002) && c.chal != "" {
				c.old = append(c.old, c.chal) // a challenge is consumed by any verification attempt
				c.chal = ""
			}
			if valid {
				verif_Assert("C03.p2.accepted", err == nil && resp != nil && resp.Success)
				w.becomes(c, id)
				verif_Cover("C03.authed_by_response")
			} else {
				verif_Assert("C03.p2.refused", err != nil && (resp == nil || !resp.Success))
				verif_Cover("C03.refused")
			}
		}
		w.checkState("after")
	}
	verif_Cover("C03.done")
}

// Banned and blacklisted addresses are refused before any credential check, even with a
// correct response.
func Harness_C03_gates() {
	verif_ClockSet(int64(1) << 60)
	ctx, stop := context.WithCancel(context.Background())
	bf := security.NewBruteForceProtector(&security.BruteForceConfig{MaxFailures: 1, TimeWindow: time.Hour, BanDuration: time.Hour, PermanentBanAt: 100, CleanupInterval: time.Hour}, ctx)
	ipm := security.NewIPManager(nil, ctx)
	w := newC03World(ctx, stop, bf, ipm)
	defer w.close()
	verif_UseTapeRandom()
	c := w.conns[0]
	resp, _ := w.send(c, &packet.HandshakeRequest{ClientID: 1001, ConnectionType: "control"})
	verif_Assert("C03.gate.challenge", resp != nil && resp.NeedResponse)
	good := w.mgr.ComputeResponse("s1", resp.Challenge)
	if verif_Bool() {
		bf.BanIP("10.0.0.1", time.Hour, "test")
		resp2, err := w.send(c, &packet.HandshakeRequest{ClientID: 1001, ChallengeResponse: good, ConnectionType: "control"})
		verif_Assert("C03.gate.banned", err != nil && (resp2 == nil || !resp2.Success))
		verif_Cover("C03.gate.banned_refused")
	} else {
		// the blacklist entry is the address itself or a range that contains it (also written in
		// the IPv4-mapped IPv6 notation); the transport reports the peer as a TCP address (4- or
		// 16-byte form) or only as text, plain or IPv4-mapped
		ei := verif_Choose(5)
		entry := []string{"10.0.0.1", "10.0.0.0/8", "10.0.0.0/31", "::ffff:10.0.0.0/104", "0.0.0.0/0"}[ei]
		fi := verif_Choose(4)
		// one cover point per class (entry form x address form), before the assertions: every
		// class's witness is replayed against the real address parsing and matching code
		verif_Cover("C03.gate.class." + []string{"exact", "range8", "range31", "mapped104", "all"}[ei] + "." + []string{"tcp4", "tcp16", "text", "mappedtext"}[fi])
		switch fi {
		case 1:
			c.rw.ip = net.ParseIP("10.0.0.1").To16()
		case 2:
			c.rw.addr = c03StrAddr("10.0.0.1:4000")
		case 3:
			// an exact (non-range) entry is matched as text: the mapped spelling of an exactly
			// listed address is outside the claim (Go listeners never report it)
			verif_Assume(entry != "10.0.0.1")
			c.rw.addr = c03StrAddr("[::ffff:10.0.0.1]:4000")
			verif_Cover("C03.gate.mapped_form")
		}
		verif_Assert("C03.gate.blacklist_add", ipm.AddToBlacklist(entry, time.Hour, "r", "t") == nil)
		resp2, err := w.send(c, &packet.HandshakeRequest{ClientID: 1001, ChallengeResponse: good, ConnectionType: "control"})
		verif_Assert("C03.gate.blacklisted", err != nil && (resp2 == nil || !resp2.Success))
		verif_Cover("C03.gate.blacklisted_refused")
	}
	cc := w.sm.GetControlConnection(c.rw.id)
	verif_Assert("C03.gate.not_authenticated", cc == nil || !cc.IsAuthenticated())
	// the challenge was not consumed by the refused attempt's credential check
	verif_Assert("C03.gate.no_index", w.sm.GetControlConnectionByClientID(1001) == nil)
}

// A client record without a stored secret (created before the server had a master key, or not
// migrated yet) can never be authenticated by challenge-response: not with the keyed response
// of the empty secret, not with a prefix of it, not with arbitrary bytes - on its own challenge
// (none is issued for it) or on a challenge issued for somebody else on the same connection.
func Harness_C03_keyless_client() {
	verif_ClockSet(int64(1) << 60)
	ctx, stop := context.WithCancel(context.Background())
	w := newC03World(ctx, stop, nil, nil)
	defer w.close()
	verif_UseTapeRandom()
	w.cloud.cfgs[1005] = &models.ClientConfig{ID: 1005} // SecretKeyEncrypted == ""
	c := w.conns[0]
	// phase 1 for the keyless client itself: no challenge
	if verif_Bool() {
		resp, _ := w.send(c, &packet.HandshakeRequest{ClientID: 1005, ConnectionType: "control"})
		verif_Assert("C03.keyless.no_challenge", resp == nil || (!resp.Success && !resp.NeedResponse))
	}
	// phase 1 for a client that has a key: the connection now holds a pending challenge
	resp, _ := w.send(c, &packet.HandshakeRequest{ClientID: 1001, ConnectionType: "control"})
	verif_Assert("C03.keyless.setup.challenge", resp != nil && resp.NeedResponse && resp.Challenge != "")
	var response string
	// (one cover point per kind of response, before the assertions: each kind's witness is replayed
	// against the real cryptography)
	switch verif_Choose(4) {
	case 0: // what anybody can compute: the keyed response of the empty secret
		response = w.mgr.ComputeResponse("", resp.Challenge)
		verif_Cover("C03.keyless.sent.empty_key_response")
	case 1: // the right response of the client the challenge was issued for
		response = w.mgr.ComputeResponse("s1", resp.Challenge)
		verif_Cover("C03.keyless.sent.other_clients_response")
	case 2:
		response = ""
		verif_Cover("C03.keyless.sent.nothing")
	default:
		response = string(verif_Bytes(2))
		verif_Cover("C03.keyless.sent.arbitrary")
	}
	resp2, err := w.send(c, &packet.HandshakeRequest{ClientID: 1005, ChallengeResponse: response, ConnectionType: "control"})
	verif_Assert("C03.keyless.refused", err != nil && (resp2 == nil || !resp2.Success))
	cc := w.sm.GetControlConnection(c.rw.id)
	verif_Assert("C03.keyless.not_authenticated", cc == nil || !cc.IsAuthenticated())
	verif_Assert("C03.keyless.no_index", w.sm.GetControlConnectionByClientID(1005) == nil)
	verif_Cover("C03.keyless.done")
}

// The lock-out holds at the handshake for every message of a locked-out address, not only for the
// first leg: two connections from one address obtain their challenges first; then the address is
// locked out - by the wrong answer of the first connection, by an operator's ban, or by a
// blacklist entry - and the second connection answers its challenge correctly. It is refused and
// stays unauthenticated until the lock-out ends.
func Harness_C18_lockout_at_handshake() {
	verif_ClockSet(int64(1) << 60)
	ctx, stop := context.WithCancel(context.Background())
	bf := security.NewBruteForceProtector(&security.BruteForceConfig{MaxFailures: 1, TimeWindow: time.Hour, BanDuration: time.Hour, PermanentBanAt: 100, CleanupInterval: time.Hour}, ctx)
	ipm := security.NewIPManager(nil, ctx)
	w := newC03World(ctx, stop, bf, ipm)
	defer w.close()
	verif_UseTapeRandom()
	a, b := w.conns[0], w.conns[1]
	b.rw.ip = net.IPv4(10, 0, 0, 1) // the same address as a
	ra, _ := w.send(a, &packet.HandshakeRequest{ClientID: 1001, ConnectionType: "control"})
	rb, _ := w.send(b, &packet.HandshakeRequest{ClientID: 1002, ConnectionType: "control"})
	verif_Assert("C18.hs.setup.challenges", ra != nil && ra.NeedResponse && rb != nil && rb.NeedResponse)
	good := w.mgr.ComputeResponse("s2", rb.Challenge)
	switch verif_Choose(3) {
	case 0:
		r, err := w.send(a, &packet.HandshakeRequest{ClientID: 1001, ChallengeResponse: "00", ConnectionType: "control"})
		verif_Assert("C18.hs.setup.wrong_answer_refused", err != nil && (r == nil || !r.Success))
		banned, _ := bf.IsBanned("10.0.0.1")
		verif_Assert("C18.hs.setup.banned_by_failure", banned)
		verif_Cover("C18.hs.locked_by_failure")
	case 1:
		bf.BanIP("10.0.0.1", time.Hour, "operator")
		verif_Cover("C18.hs.locked_by_ban")
	default:
		verif_Assert("C18.hs.setup.blacklist", ipm.AddToBlacklist("10.0.0.1", time.Hour, "r", "t") == nil)
		verif_Cover("C18.hs.locked_by_blacklist")
	}
	r2, err := w.send(b, &packet.HandshakeRequest{ClientID: 1002, ChallengeResponse: good, ConnectionType: "control"})
	verif_Assert("C18.hs.second_leg_refused", err != nil && (r2 == nil || !r2.Success))
	cc := w.sm.GetControlConnection(b.rw.id)
	verif_Assert("C18.hs.not_authenticated", cc == nil || !cc.IsAuthenticated())
	verif_Assert("C18.hs.no_index", w.sm.GetControlConnectionByClientID(1002) == nil)
	verif_Cover("C18.hs.done")
}
