package security

// Challenges are fresh: whatever else the manager has handed out random bytes for before
// (credentials, ciphertext nonces - any number of them), a long run of challenges contains no
// challenge twice, so a response recorded for one of them is never the answer to a later one. The
// run itself is executed against the real random source by the native replay of each class's
// witness (randomness has no model in the engine beyond solver-chosen draws).
func Harness_C03_fresh_challenges() {
	mgr, err := NewSecretKeyManager(&SecretKeyConfig{MasterKey: "MDEyMzQ1Njc4OWFiY2RlZjAxMjM0NTY3ODlhYmNkZWY="})
	verif_Assert("C03.fresh.setup", err == nil)
	creds := verif_Choose(4)
	encs := verif_Choose(4)
	verif_Cover([]string{"C03.fresh.creds0", "C03.fresh.creds1", "C03.fresh.creds2", "C03.fresh.creds3"}[creds])
	verif_Cover([]string{"C03.fresh.encs0", "C03.fresh.encs1", "C03.fresh.encs2", "C03.fresh.encs3"}[encs])
	if verif_Symbolic() {
		return
	}
	for i := 0; i < creds; i++ {
		_, _, e := mgr.GenerateCredentials()
		verif_Assert("C03.fresh.credentials", e == nil)
	}
	for i := 0; i < encs; i++ {
		_, e := mgr.Encrypt("s")
		verif_Assert("C03.fresh.encrypt", e == nil)
	}
	seen := map[string]int{}
	for i := 0; i < 300; i++ {
		c, e := mgr.GenerateChallenge()
		verif_Assert("C03.fresh.challenge_issued", e == nil && c != "")
		_, dup := seen[c]
		verif_Assert("C03.fresh.challenge_never_repeats", !dup)
		seen[c] = i
	}
}
