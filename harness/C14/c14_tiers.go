package hybrid

import (
	"context"
	"errors"
	"time"

	"tunnox-core/internal/core/storage/types"
)

// ---- tier doubles ------------------------------------------------------------------------

type c14Item struct {
	v any
}

type c14Tier struct {
	name    string
	m       map[string]*c14Item
	touched int  // operations that reached this tier
	failSet bool // the next Set on this tier fails (one transient fault)
	yield   bool
	yieldAfter bool // Get: also a scheduling point between reading the value and returning it (the reply is in flight)
	// ghost: a read-modify-write on watchKey overlapped another one
	watchKey    string
	openReads   int
	interleaved bool
}

var errC14Tier = errors.New("tier unavailable")

func newC14Tier(name string) *c14Tier { return &c14Tier{name: name, m: map[string]*c14Item{}} }

func (t *c14Tier) op() {
	if t.yield {
		verif_Yield()
	}
	t.touched++
}

func (t *c14Tier) Set(key string, value any, ttl time.Duration) error {
	t.op()
	if t.failSet {
		t.failSet = false
		return errC14Tier
	}
	if key == t.watchKey && t.watchKey != "" {
		if t.openReads > 1 {
			t.interleaved = true
		}
		t.openReads = 0
	}
	t.m[key] = &c14Item{v: value}
	return nil
}
func (t *c14Tier) Get(key string) (any, error) {
	t.op()
	if key == t.watchKey && t.watchKey != "" {
		t.openReads++
	}
	it, ok := t.m[key]
	if t.yieldAfter {
		verif_Yield()
	}
	if ok {
		return it.v, nil
	}
	return nil, types.ErrKeyNotFound
}
func (t *c14Tier) Delete(key string) error { t.op(); delete(t.m, key); return nil }
func (t *c14Tier) Exists(key string) (bool, error) {
	t.op()
	_, ok := t.m[key]
	return ok, nil
}
func (t *c14Tier) Close() error { return nil }

// persistent tier: same store, PersistentStorage signature (no ttl)
type c14Persist struct{ *c14Tier }

func (p c14Persist) Set(key string, value any) error { return p.c14Tier.Set(key, value, 0) }
func (p c14Persist) BatchSet(items map[string]any) error {
	for k, v := range items {
		p.c14Tier.Set(k, v, 0)
	}
	return nil
}
func (p c14Persist) BatchGet(keys []string) (map[string]any, error) {
	r := map[string]any{}
	for _, k := range keys {
		if v, err := p.c14Tier.Get(k); err == nil {
			r[k] = v
		}
	}
	return r, nil
}
func (p c14Persist) BatchDelete(keys []string) error {
	for _, k := range keys {
		p.c14Tier.Delete(k)
	}
	return nil
}
func (p c14Persist) QueryByField(keyPrefix string, fieldName string, fieldValue any) ([]string, error) {
	return nil, nil
}
func (p c14Persist) QueryByPrefix(prefix string, limit int) (map[string]string, error) {
	return map[string]string{}, nil
}

type c14Node struct {
	h     *Storage
	local *c14Tier
}

type c14World struct {
	shared  *c14Tier
	persist *c14Tier
	nodes   []*c14Node
}

func newC14World(ctx context.Context, yield bool) *c14World {
	w := &c14World{shared: newC14Tier("shared"), persist: newC14Tier("persistent")}
	w.shared.yield, w.persist.yield = yield, yield
	for i := 0; i < 2; i++ {
		cfg := DefaultConfig()
		cfg.EnablePersistent = true
		local := newC14Tier("local")
		local.yield = yield
		w.nodes = append(w.nodes, &c14Node{h: NewWithSharedCache(ctx, local, w.shared, c14Persist{w.persist}, cfg), local: local})
	}
	return w
}

func (w *c14World) reset() {
	w.shared.touched, w.persist.touched = 0, 0
	for _, n := range w.nodes {
		n.local.touched = 0
	}
}

// c14Key picks a key: one of the configured prefixes (any category) or a non-matching
// prefix, followed by a symbolic suffix.
func c14Key() (string, DataCategory) {
	cfg := DefaultConfig()
	var prefixes []string
	var cats []DataCategory
	for _, p := range cfg.SharedPersistentPrefixes {
		prefixes, cats = append(prefixes, p), append(cats, DataCategorySharedPersistent)
	}
	for _, p := range cfg.SharedPrefixes {
		prefixes, cats = append(prefixes, p), append(cats, DataCategoryShared)
	}
	for _, p := range cfg.PersistentPrefixes {
		prefixes, cats = append(prefixes, p), append(cats, DataCategoryPersistent)
	}
	prefixes, cats = append(prefixes, "tunnox:runtime-only:"), append(cats, DataCategoryRuntime)
	i := verif_Choose(len(prefixes))
	n := verif_IntRange(0, verif_Bound("suffix"))
	key := prefixes[i] + string(verif_Bytes(n))
	return key, c14Classify(cfg, key)
}

// c14Classify is the harness' own reading of the configuration tables (documented
// priority: shared-persistent, shared, persistent, otherwise runtime). It does not use
// the store's classifier, so a store that mis-classifies a key is caught.
func c14Classify(cfg *Config, key string) DataCategory {
	has := func(list []string) bool {
		for _, p := range list {
			if len(key) >= len(p) && verif_StrEq(key[:len(p)], p) {
				return true
			}
		}
		return false
	}
	if has(cfg.SharedPersistentPrefixes) {
		return DataCategorySharedPersistent
	}
	if has(cfg.SharedPrefixes) {
		return DataCategoryShared
	}
	if has(cfg.PersistentPrefixes) {
		return DataCategoryPersistent
	}
	return DataCategoryRuntime
}

// Tier routing for every key: whatever one node writes through any write-class
// operation is visible to the read-class operations of every node when the key is in a
// shared class, shared keys never live only in a node-local cache, and runtime-only keys
// never reach the persistent tier.
func Harness_C14_routing() {
	ctx := context.Background()
	w := newC14World(ctx, false)
	key, cat := c14Key()
	verif_Assert("C14.route.category", w.nodes[0].h.getCategory(key) == cat)
	a, b := w.nodes[0], w.nodes[1]
	sharedClass := cat == DataCategoryShared || cat == DataCategorySharedPersistent
	switch verif_Choose(5) {
	case 0: // Set on A, Get/Exists on B; the shared cache may fail this one write
		faulty := verif_Bool()
		if faulty {
			w.shared.failSet = true
		}
		serr := a.h.Set(key, int64(7), time.Minute)
		w.shared.failSet = false
		if faulty && serr != nil {
			// the write was refused: nobody may see it, and nothing is asserted about tiers
			_, gerr := b.h.Get(key)
			verif_Assert("C14.route.refused_write_invisible", !sharedClass || gerr != nil)
			verif_Cover("C14.route.write_refused")
			return
		}
		verif_Assert("C14.route.set", serr == nil)
		if sharedClass {
			v, err := b.h.Get(key)
			verif_Assert("C14.route.get_other_node", err == nil && v == any(int64(7)))
			ex, _ := b.h.Exists(key)
			verif_Assert("C14.route.exists_other_node", ex)
		}
		v, err := a.h.Get(key)
		verif_Assert("C14.route.get_same_node", err == nil && v == any(int64(7)))
	case 1: // Set on A, SetExpiration on A (and on B for shared classes), then still readable
		a.h.Set(key, int64(7), time.Minute)
		verif_Known("C14-local-only-ops-on-shared-keys", sharedClass)
		verif_Assert("C14.route.setexpiration_same_node", a.h.SetExpiration(key, time.Hour) == nil)
		if sharedClass {
			verif_Assert("C14.route.setexpiration_other_node", b.h.SetExpiration(key, time.Hour) == nil)
		}
		v, err := a.h.Get(key)
		verif_Assert("C14.route.get_after_setexpiration", err == nil && v == any(int64(7)))
	case 2: // counters: increments by different nodes add up for shared classes
		n1, e1 := a.h.Incr(key)
		n2, e2 := b.h.Incr(key)
		verif_Assert("C14.route.incr_ok", e1 == nil && e2 == nil && n1 == 1)
		verif_Known("C14-local-only-ops-on-shared-keys", sharedClass)
		if sharedClass {
			verif_Assert("C14.route.incr_shared", n2 == 2)
		}
		n3, _ := a.h.IncrBy(key, 5)
		if sharedClass {
			verif_Assert("C14.route.incrby_shared", n3 == 7)
		} else {
			verif_Assert("C14.route.incrby_local", n3 == 6)
		}
	case 3: // hash fields
		verif_Assert("C14.route.sethash", a.h.SetHash(key, "f", int64(3)) == nil)
		v, err := a.h.GetHash(key, "f")
		verif_Assert("C14.route.gethash_same_node", err == nil && v == any(int64(3)))
		verif_Known("C14-local-only-ops-on-shared-keys", sharedClass)
		if sharedClass {
			v2, err2 := b.h.GetHash(key, "f")
			verif_Assert("C14.route.gethash_other_node", err2 == nil && v2 == any(int64(3)))
		}
	case 4: // SetNX then Get / Delete from the other node
		ok, err := a.h.SetNX(key, int64(9), time.Minute)
		verif_Assert("C14.route.setnx", err == nil && ok)
		if sharedClass {
			ok2, _ := b.h.SetNX(key, int64(10), time.Minute)
			verif_Assert("C14.route.setnx_other_node_refused", !ok2)
			verif_Assert("C14.route.delete_other_node", b.h.Delete(key) == nil)
			_, gerr := a.h.Get(key)
			verif_Assert("C14.route.gone_after_delete", gerr != nil)
		}
	}
	// tier discipline
	if cat == DataCategoryRuntime {
		verif_Assert("C14.route.runtime_never_persisted", w.persist.touched == 0 && len(w.persist.m) == 0)
		verif_Cover("C14.route.runtime")
	}
	if cat == DataCategoryShared {
		verif_Known("C14-local-only-ops-on-shared-keys", true)
		verif_Assert("C14.route.shared_not_local", len(a.local.m) == 0 && len(b.local.m) == 0)
		verif_Cover("C14.route.shared")
	}
	if cat == DataCategoryPersistent {
		verif_Cover("C14.route.persistent")
	}
	if cat == DataCategorySharedPersistent {
		verif_Cover("C14.route.sharedpersistent")
	}
}

// Once a Set or Delete has returned, a later Get never returns an older value brought
// back from another tier (the asynchronous cache write-back may run at any later point).
func Harness_C14_stale_read() {
	ctx := context.Background()
	w := newC14World(ctx, false)
	nd := w.nodes[0]
	key, cat := c14Key()
	verif_Assert("C14.stale.category", nd.h.getCategory(key) == cat)
	verif_Assume(cat == DataCategoryPersistent || cat == DataCategorySharedPersistent)
	cur := int64(0) // 0: absent, otherwise the latest value whose Set returned
	next := int64(1)
	resurrected := false // ghost: an asynchronous write-back stored a value older than the latest Set/Delete
	n := verif_Bound("steps")
	for i := 0; i < n; i++ {
		switch verif_Choose(4) {
		case 0:
			verif_Assert("C14.stale.set", nd.h.Set(key, next, 0) == nil)
			cur = next
			next++
		case 1:
			verif_Assert("C14.stale.delete", nd.h.Delete(key) == nil)
			cur = 0
		case 2: // the cache entry expires / is evicted: only the persistent copy remains
			delete(nd.local.m, key)
			delete(w.shared.m, key)
		case 3:
			v, err := nd.h.Get(key)
			verif_Known("C14-writeback-resurrects", resurrected)
			if cur == 0 {
				verif_Assert("C14.stale.notfound_after_delete", err != nil)
			} else {
				verif_Assert("C14.stale.latest_value", err == nil && v == any(cur))
			}
		}
		if verif_PendingCount() > 0 {
			verif_Cover("C14.stale.writeback_seen")
		}
		before := verif_PendingCount()
		verif_MaybeRunPending()
		if verif_PendingCount() < before {
			// a write-back ran: did it put back something other than the latest state?
			for _, tier := range []*c14Tier{nd.local, w.shared} {
				if it, ok := tier.m[key]; ok && it.v != any(cur) {
					resurrected = true
				}
			}
		}
	}
	verif_Cover("C14.stale.done")
}

// Entries appended to / removed from a stored list by concurrent callers all take effect.
func Harness_C14_lists() {
	ctx := context.Background()
	w := newC14World(ctx, true)
	a, b := w.nodes[0], w.nodes[1]
	key := "tunnox:client_mappings:7"
	if verif_Bool() {
		key = "tunnox:runtime-only:list"
		b = a // node-local key: both callers are on the same node
	}
	a.h.Set(key, []any{"x"}, 0)
	w.shared.watchKey, a.local.watchKey, b.local.watchKey = key, key, key
	removeToo := verif_Bool()
	verif_Spawn(func() { a.h.AppendToList(key, "p") })
	verif_Spawn(func() {
		if removeToo {
			b.h.RemoveFromList(key, "x")
		} else {
			b.h.AppendToList(key, "q")
		}
	})
	verif_Quiesce()
	w.shared.yield, w.persist.yield, a.local.yield, b.local.yield = false, false, false, false
	list, err := a.h.GetList(key)
	verif_Assert("C14.list.readable", err == nil)
	has := func(s string) bool {
		for _, x := range list {
			if x == any(s) {
				return true
			}
		}
		return false
	}
	verif_Known("C14-list-update-lost", w.shared.interleaved || a.local.interleaved || b.local.interleaved)
	verif_Assert("C14.list.append_p_kept", has("p"))
	if removeToo {
		verif_Assert("C14.list.removed_x_gone", !has("x"))
	} else {
		verif_Assert("C14.list.append_q_kept", has("q"))
		verif_Assert("C14.list.x_kept", has("x"))
	}
	verif_Cover("C14.list.done")
}

// A read that starts after a Delete (or a newer Set) has returned never gets the older value
// from a read that was still in flight when the change happened: reader 1 is suspended at an
// arbitrary tier operation of its Get, the change completes, then reader 2 runs - without any
// asynchronous write-back in between (those are the subject of stale_read and of a known finding).
func Harness_C14_read_overlapping_change() {
	ctx := context.Background()
	w := newC14World(ctx, true)
	nd := w.nodes[0]
	key, cat := c14Key()
	verif_Assume(cat == DataCategoryPersistent || cat == DataCategorySharedPersistent)
	w.shared.yield, w.persist.yield, nd.local.yield = false, false, false
	verif_Assert("C14.ovl.setup.set", nd.h.Set(key, int64(1), 0) == nil)
	for verif_PendingCount() > 0 {
		verif_MaybeRunPending()
		if verif_PendingCount() > 0 {
			verif_Assume(false) // setup: all write-backs of the setup have run
		}
	}
	// the cache copies are gone (expired / evicted / another node's cold cache)
	delete(nd.local.m, key)
	delete(w.shared.m, key)
	w.shared.yield, w.persist.yield, nd.local.yield = true, true, true
	w.persist.yieldAfter = true
	var v1 any
	var e1 error
	verif_Spawn(func() { v1, e1 = nd.h.Get(key) })
	verif_Yield() // reader 1 runs up to any of its tier operations - before it or with the reply in flight - or not at all yet
	w.shared.yield, w.persist.yield, nd.local.yield = false, false, false
	w.persist.yieldAfter = false
	want := int64(0)
	if verif_Bool() {
		verif_Assert("C14.ovl.delete", nd.h.Delete(key) == nil)
	} else {
		verif_Assert("C14.ovl.set2", nd.h.Set(key, int64(2), 0) == nil)
		want = 2
	}
	// has an asynchronous write-back of reader 1 already put the old value back? (known finding)
	resurrected := false
	for _, tier := range []*c14Tier{nd.local, w.shared} {
		if it, ok := tier.m[key]; ok && it.v != any(want) {
			resurrected = true
		}
	}
	verif_Known("C14-writeback-resurrects", resurrected)
	v2, e2 := nd.h.Get(key)
	if want == 0 {
		verif_Assert("C14.ovl.notfound_after_delete", e2 != nil)
	} else {
		verif_Assert("C14.ovl.latest_value", e2 == nil && v2 == any(want))
	}
	verif_Quiesce()
	_, _ = v1, e1
	verif_Cover("C14.ovl.done")
}

// Removing a member of a stored index list - with a reader of the same list overlapping the
// removal and possibly one tier write failing: every list any caller sees, during and after, is
// one that was written (the original, or the original without the removed member); a removal that
// reports success is in effect afterwards. Values kept by reference in a cache tier must not be
// edited in place.
func Harness_C14_list_remove() {
	ctx := context.Background()
	w := newC14World(ctx, true)
	nd := w.nodes[0]
	key := []string{"tunnox:client_mappings:7", "tunnox:runtime-only:list", DefaultConfig().PersistentPrefixes[0] + "l"}[verif_Choose(3)]
	w.shared.yield, w.persist.yield, nd.local.yield = false, false, false
	orig := []any{"a", "b", "c"}
	verif_Assert("C14.rm.setup.set", nd.h.Set(key, []any{"a", "b", "c"}, 0) == nil)
	for verif_PendingCount() > 0 {
		verif_MaybeRunPending()
	}
	victim := []string{"a", "b", "c", "zz"}[verif_Choose(4)]
	var want []any
	for _, x := range orig {
		if x != any(victim) {
			want = append(want, x)
		}
	}
	same := func(l, m []any) bool {
		if len(l) != len(m) {
			return false
		}
		for i := range l {
			if l[i] != m[i] {
				return false
			}
		}
		return true
	}
	switch verif_Choose(4) { // one tier write fails - or none
	case 1:
		w.persist.failSet = true
	case 2:
		nd.local.failSet = true
	case 3:
		w.shared.failSet = true
	}
	w.shared.yield, w.persist.yield, nd.local.yield = true, true, true
	var seen []any
	var readErr, rmErr error
	reader := verif_Bool()
	if reader {
		verif_Spawn(func() {
			l, err := nd.h.GetList(key)
			readErr = err
			seen = append([]any{}, l...)
		})
	}
	verif_Spawn(func() { rmErr = nd.h.RemoveFromList(key, victim) })
	verif_Quiesce()
	w.shared.yield, w.persist.yield, nd.local.yield = false, false, false
	if reader && readErr == nil {
		verif_Assert("C14.rm.reader_sees_a_written_list", same(seen, orig) || same(seen, want))
	}
	final, err := nd.h.GetList(key)
	verif_Assert("C14.rm.readable", err == nil)
	verif_Assert("C14.rm.final_is_a_written_list", same(final, orig) || same(final, want))
	if rmErr == nil {
		verif_Assert("C14.rm.success_in_effect", same(final, want))
		verif_Cover("C14.rm.removed")
	} else {
		verif_Cover("C14.rm.failed")
	}
	verif_Cover("C14.rm.done")
}

// A write during which one tier fails: if it is acknowledged, every later read returns it - never
// the older value a cache tier still holds because its own write failed; if it is refused, the
// older value stays readable.
func Harness_C14_write_fault() {
	ctx := context.Background()
	w := newC14World(ctx, false)
	nd := w.nodes[0]
	key, cat := c14Key()
	verif_Assume(cat == DataCategoryPersistent || cat == DataCategorySharedPersistent)
	verif_Assert("C14.wf.setup.set", nd.h.Set(key, int64(1), 0) == nil)
	for verif_PendingCount() > 0 {
		verif_MaybeRunPending()
	}
	if verif_Bool() { // the cache copies may be gone already
		delete(nd.local.m, key)
		delete(w.shared.m, key)
	}
	[]*c14Tier{nd.local, w.shared, w.persist}[verif_Choose(3)].failSet = true
	cur := int64(1)
	if err := nd.h.Set(key, int64(2), 0); err == nil {
		cur = 2
		verif_Cover("C14.wf.acknowledged")
	} else {
		verif_Cover("C14.wf.refused")
	}
	for _, n := range w.nodes {
		v, err := n.h.Get(key)
		if n == nd || cat == DataCategorySharedPersistent {
			verif_Assert("C14.wf.read_after_write", err == nil && v == any(cur))
		}
	}
	verif_Cover("C14.wf.done")
}

// Values around one megabyte (a client's whole configuration, a long index list): a later write
// of such a value is what every later read returns - a value too large for some tier's liking
// must not leave the older, smaller one readable.
func Harness_C14_large_values() {
	ctx := context.Background()
	w := newC14World(ctx, false)
	nd := w.nodes[0]
	key := []string{"tunnox:client_mappings:7", DefaultConfig().PersistentPrefixes[0] + "cfg"}[verif_Choose(2)]
	n := []int{1<<20 - 1, 1 << 20, 1<<20 + 1, 3 << 20}[verif_Choose(4)]
	small := "v1"
	verif_Assert("C14.big.setup.set", nd.h.Set(key, small, 0) == nil)
	for verif_PendingCount() > 0 {
		verif_MaybeRunPending()
	}
	var big any
	if verif_Bool() {
		big = string(make([]byte, n))
	} else {
		big = make([]byte, n)
	}
	verif_Assert("C14.big.set", nd.h.Set(key, big, 0) == nil)
	size := func(v any) int {
		switch x := v.(type) {
		case string:
			return len(x)
		case []byte:
			return len(x)
		}
		return -1
	}
	v, err := nd.h.Get(key)
	verif_Assert("C14.big.read_after_write", err == nil && size(v) == n)
	for verif_PendingCount() > 0 {
		verif_MaybeRunPending()
	}
	v, err = nd.h.Get(key)
	verif_Assert("C14.big.read_after_writebacks", err == nil && size(v) == n)
	verif_Cover("C14.big.done")
}
