package tunnel

import (
	"context"
	"encoding/json"
	"time"

	"tunnox-core/internal/core/storage"
	"tunnox-core/internal/core/storage/hybrid"
	"tunnox-core/internal/core/storage/memory"
)

// c09JSONStore stores the JSON text of every non-string value, as the Redis backend does.
type c09JSONStore struct {
	*memory.Storage
}

func (s *c09JSONStore) Set(key string, value any, ttl time.Duration) error {
	if str, ok := value.(string); ok {
		return s.Storage.Set(key, str, ttl)
	}
	b, err := json.Marshal(value)
	if err != nil {
		return err
	}
	return s.Storage.Set(key, string(b), ttl)
}

type c09Rec struct {
	present bool
	st      WaitingState
	exp     int64
}

// c09Str returns an arbitrary string of length 0 or 1 (empty values included).
func c09Str(empty bool) string {
	if empty {
		return ""
	}
	return string(verif_Bytes(1))
}

func Harness_C09_routing() {
	ctx := context.Background()
	now := int64(1) << 60
	verif_ClockSet(now)
	mem := memory.New(ctx)
	// backend: 0 = in-memory, 1 = Redis-like (JSON text values), 2 = tiered: every node has its
	// own hybrid.Storage (node-local cache) over one shared Redis-like cache, as in production
	sts := []storage.Storage{mem, mem}
	switch verif_Choose(3) {
	case 1:
		js := &c09JSONStore{mem}
		sts = []storage.Storage{js, js}
	case 2:
		shared := &c09JSONStore{mem}
		sts = []storage.Storage{
			hybrid.NewWithSharedCache(ctx, memory.New(ctx), shared, nil, hybrid.DefaultConfig()),
			hybrid.NewWithSharedCache(ctx, memory.New(ctx), shared, nil, hybrid.DefaultConfig()),
		}
		verif_Cover("C09.tiered")
	}
	ttl := int64(verif_Byte()) + 1
	nodes := []*RoutingTable{NewRoutingTable(sts[0], time.Duration(ttl)), NewRoutingTable(sts[1], time.Duration(ttl))}
	ids := []string{"t0", "t1"}
	recs := map[string]*c09Rec{"t0": {}, "t1": {}}
	n := verif_Bound("ops")
	for i := 0; i < n; i++ {
		now += int64(verif_Byte())
		verif_ClockSet(now)
		for _, r := range recs {
			if r.present {
				verif_Assume(r.exp != now)
			}
		}
		node := nodes[verif_Choose(2)]
		id := ids[verif_Choose(2)]
		rec := recs[id]
		switch verif_Choose(3) {
		case 0: // source node registers the waiting tunnel
			e := verif_Bool()
			ws := &WaitingState{TunnelID: id, MappingID: c09Str(e), SecretKey: c09Str(e), SourceNodeID: c09Str(false),
				SourceClientID: verif_Int64(), TargetClientID: verif_Int64(), TargetHost: c09Str(e), TargetPort: int(verif_Uint16())}
			err := node.RegisterWaitingTunnel(ctx, ws)
			verif_Assert("C09.register.ok", err == nil)
			rec.present = true
			rec.st = *ws
			rec.exp = now + ttl
		case 1: // any node looks the tunnel up
			got, err := node.LookupWaitingTunnel(ctx, id)
			if rec.present && now < rec.exp {
				verif_Assert("C09.lookup.found", err == nil && got != nil)
				verif_Assert("C09.lookup.ids", got.TunnelID == id && got.SourceClientID == rec.st.SourceClientID && got.TargetClientID == rec.st.TargetClientID && got.TargetPort == rec.st.TargetPort)
				verif_Assert("C09.lookup.mapping", verif_StrEq(got.MappingID, rec.st.MappingID))
				verif_Assert("C09.lookup.secret", verif_StrEq(got.SecretKey, rec.st.SecretKey))
				verif_Assert("C09.lookup.node", verif_StrEq(got.SourceNodeID, rec.st.SourceNodeID))
				verif_Assert("C09.lookup.host", verif_StrEq(got.TargetHost, rec.st.TargetHost))
				verif_Cover("C09.found")
			} else {
				verif_Assert("C09.lookup.gone", err != nil && got == nil)
				verif_Cover("C09.gone")
			}
		case 2: // tunnel ended: the record is removed
			verif_Assert("C09.remove.ok", node.RemoveWaitingTunnel(ctx, id) == nil)
			rec.present = false
		}
	}
	verif_Cover("C09.done")
}

// What one node has once resolved must not outlive a change made through another node: after a
// successful lookup on node B, node A removes the record (tunnel ended) or registers the id again
// (new tunnel, other endpoints); B's next lookup - at any later instant, also the same one -
// sees exactly what the shared store holds.
func Harness_C09_cross_node_freshness() {
	ctx := context.Background()
	now := int64(1) << 60
	verif_ClockSet(now)
	mem := memory.New(ctx)
	sts := []storage.Storage{mem, mem}
	switch verif_Choose(3) {
	case 1:
		js := &c09JSONStore{mem}
		sts = []storage.Storage{js, js}
	case 2:
		shared := &c09JSONStore{mem}
		sts = []storage.Storage{
			hybrid.NewWithSharedCache(ctx, memory.New(ctx), shared, nil, hybrid.DefaultConfig()),
			hybrid.NewWithSharedCache(ctx, memory.New(ctx), shared, nil, hybrid.DefaultConfig()),
		}
	}
	ttl := int64(verif_Byte()) + 1
	a, b := NewRoutingTable(sts[0], time.Duration(ttl)), NewRoutingTable(sts[1], time.Duration(ttl))
	id := "t0"
	mk := func() *WaitingState {
		return &WaitingState{TunnelID: id, MappingID: c09Str(false), SecretKey: c09Str(false), SourceNodeID: c09Str(false),
			SourceClientID: verif_Int64(), TargetClientID: verif_Int64(), TargetHost: c09Str(false), TargetPort: int(verif_Uint16())}
	}
	same := func(got, want *WaitingState) bool {
		return got.TunnelID == id && got.SourceClientID == want.SourceClientID && got.TargetClientID == want.TargetClientID && got.TargetPort == want.TargetPort &&
			verif_StrEq(got.MappingID, want.MappingID) && verif_StrEq(got.SecretKey, want.SecretKey) && verif_StrEq(got.SourceNodeID, want.SourceNodeID) && verif_StrEq(got.TargetHost, want.TargetHost)
	}
	cur := mk()
	verif_Assert("C09.fresh.setup.register", a.RegisterWaitingTunnel(ctx, cur) == nil)
	exp := now + ttl
	lookups := verif_IntRange(1, 2) // B resolves the id once or twice (a second read may come from a memo)
	for i := 0; i < lookups; i++ {
		got, err := b.LookupWaitingTunnel(ctx, id)
		verif_Assert("C09.fresh.first_lookup", err == nil && got != nil && same(got, cur))
	}
	now += int64(verif_Byte())
	verif_ClockSet(now)
	verif_Assume(now != exp)
	present := true
	switch verif_Choose(3) {
	case 0:
		verif_Assert("C09.fresh.remove_ok", a.RemoveWaitingTunnel(ctx, id) == nil)
		present = false
		verif_Cover("C09.fresh.removed_elsewhere")
	case 1:
		cur = mk()
		verif_Assert("C09.fresh.reregister_ok", a.RegisterWaitingTunnel(ctx, cur) == nil)
		exp = now + ttl
		verif_Cover("C09.fresh.reregistered_elsewhere")
	}
	now += int64(verif_Byte())
	verif_ClockSet(now)
	verif_Assume(now != exp)
	for _, node := range []*RoutingTable{b, a} {
		got, err := node.LookupWaitingTunnel(ctx, id)
		if present && now < exp {
			verif_Assert("C09.fresh.found", err == nil && got != nil)
			verif_Assert("C09.fresh.current_record", same(got, cur))
		} else {
			verif_Assert("C09.fresh.gone", err != nil && got == nil)
		}
	}
	verif_Cover("C09.fresh.done")
}
