package session

import (
	"context"
	"fmt"

	"tunnox-core/internal/stream"
)

// c17RW is a transport that carries its own connection id; fetching the id is a point
// where the goroutine may be descheduled (it sits between the cap check and the insert).
type c17RW struct {
	verifConn
	id string
}

func (c *c17RW) GetConnectionID() string { verif_Yield(); return c.id }

func newC17RW(id string) *c17RW {
	return &c17RW{verifConn: verifConn{In: &verifReader{}, Out: &verifSink{}}, id: id}
}

// The server-wide connection cap is never exceeded, however two admissions race at
// limit-1 occupancy; a refused admission changes nothing.
func Harness_C17_connection_cap() {
	ctx := context.Background()
	limit := verif_Choose(3) // 0 = unlimited, 1, 2
	cfg := DefaultSessionConfig()
	cfg.MaxConnections = limit
	sm := vsNewNode(ctx, "node-A", nil, &vsAuth{}, cfg)
	sm.streamFactory = stream.NewDefaultStreamFactory(ctx)
	sm.streamMgr = stream.NewStreamManager(sm.streamFactory, ctx)
	// occupancy limit-1
	for i := 0; i < limit-1; i++ {
		rw := newC17RW(fmt.Sprintf("pre%d", i))
		_, err := sm.CreateConnection(rw, rw)
		verif_Assert("C17.cap.pre", err == nil)
	}
	var e1, e2 error
	r1, r2 := newC17RW("r1"), newC17RW("r2")
	verif_Spawn(func() { _, e1 = sm.CreateConnection(r1, r1) })
	verif_Spawn(func() { _, e2 = sm.CreateConnection(r2, r2) })
	verif_Quiesce()
	n := len(sm.connMap)
	if limit > 0 {
		verif_Assert("C17.cap.never_exceeded", n <= limit)
		verif_Assert("C17.cap.one_admitted", e1 == nil || e2 == nil)
	} else {
		verif_Assert("C17.cap.unlimited", e1 == nil && e2 == nil)
	}
	admitted := limit - 1
	if limit == 0 {
		admitted = 0
	}
	if e1 == nil {
		admitted++
	}
	if e2 == nil {
		admitted++
	}
	verif_Assert("C17.cap.refused_changes_nothing", n == admitted)
	if e1 != nil || e2 != nil {
		verif_Cover("C17.cap.refused_seen")
	}
	verif_Cover("C17.cap.done")
}

// The control-connection cap (ClientRegistry) holds when two registrations race.
func Harness_C17_control_cap() {
	limit := 1 + verif_Choose(2)
	reg := NewClientRegistry(&ClientRegistryConfig{MaxConnections: limit})
	for i := 0; i < limit-1; i++ {
		verif_Assert("C17.ctl.pre", reg.Register(NewControlConnection(fmt.Sprintf("pre%d", i), nil, nil, "tcp")) == nil)
	}
	verif_Spawn(func() { reg.Register(NewControlConnection("r1", nil, nil, "tcp")) })
	verif_Spawn(func() { reg.Register(NewControlConnection("r2", nil, nil, "tcp")) })
	verif_Quiesce()
	verif_Assert("C17.ctl.never_exceeded", reg.Count() <= limit)
	verif_Cover("C17.ctl.done")
}

// Sequential histories of admissions and closes (incl. closing the same connection twice and
// closing an id that was never opened) under a small cap: the number of live connections never
// exceeds the cap, an admission is refused exactly when the cap is reached, and a slot freed by
// a close can be used again - once.
func Harness_C17_cap_histories() {
	ctx := context.Background()
	limit := 1 + verif_Choose(2)
	cfg := DefaultSessionConfig()
	cfg.MaxConnections = limit
	sm := vsNewNode(ctx, "node-A", nil, &vsAuth{}, cfg)
	sm.streamFactory = stream.NewDefaultStreamFactory(ctx)
	sm.streamMgr = stream.NewStreamManager(sm.streamFactory, ctx)
	live := map[string]bool{}
	ids := []string{"a", "b", "c", "d"}
	opened := 0
	n := verif_Bound("events")
	for i := 0; i < n; i++ {
		switch verif_Choose(3) {
		case 0: // a connection arrives
			if opened >= len(ids) {
				continue
			}
			id := ids[opened]
			opened++
			rw := newC17RW(id)
			_, err := sm.CreateConnection(rw, rw)
			if len(live) < limit {
				verif_Assert("C17.hist.admitted_below_cap", err == nil)
				live[id] = true
			} else {
				verif_Assert("C17.hist.refused_at_cap", err != nil)
				verif_Cover("C17.hist.refused")
			}
		case 1: // a connection that was opened at some point is closed (possibly again)
			if opened == 0 {
				continue
			}
			id := ids[verif_Choose(opened)]
			sm.CloseConnection(id)
			if !live[id] {
				verif_Cover("C17.hist.closed_twice")
			}
			delete(live, id)
		case 2: // a close for an id the server never saw
			sm.CloseConnection("ghost")
		}
		sm.connLock.RLock()
		cnt := len(sm.connMap)
		sm.connLock.RUnlock()
		verif_Assert("C17.hist.never_exceeded", cnt <= limit)
		verif_Assert("C17.hist.count_matches", cnt == len(live))
	}
	verif_Cover("C17.hist.done")
}

// The tunnel-connection cap (TunnelRegistry.MaxTunnels): over every history of registrations
// (fresh or re-used connection ids, with or without a tunnel id, incl. a tunnel id another
// connection already carries - a re-attach), authentications and removals, the number of
// registered connections never exceeds the cap, and a refused registration changes nothing.
func Harness_C17_tunnel_cap_histories() {
	limit := verif_IntRange(0, 3) // symbolic: 0 = unlimited
	reg := NewTunnelRegistry(&TunnelRegistryConfig{MaxTunnels: limit})
	ids := []string{"c0", "c1", "c2"}
	tids := []string{"", "t0"}
	live := map[string]bool{}
	n := verif_Bound("events")
	for i := 0; i < n; i++ {
		switch verif_Choose(3) {
		case 0:
			id := ids[verif_Choose(len(ids))]
			tid := tids[verif_Choose(len(tids))]
			before := reg.Count()
			b0 := reg.GetByTunnelID("t0")
			err := reg.Register(&TunnelConnection{ConnID: id, TunnelID: tid})
			if err != nil {
				verif_Assert("C17.tun.refused_only_at_cap", limit > 0 && before >= limit)
				verif_Assert("C17.tun.refused_changes_nothing", reg.Count() == before && reg.GetByTunnelID("t0") == b0 && (reg.GetByConnID(id) != nil) == live[id])
				verif_Cover("C17.tun.refused")
			} else {
				live[id] = true
			}
		case 1:
			id := ids[verif_Choose(len(ids))]
			reg.Remove(id)
			delete(live, id)
		case 2:
			reg.UpdateAuth(ids[verif_Choose(len(ids))], "t0", "m")
		}
		cnt := reg.Count()
		verif_Assert("C17.tun.count_matches", cnt == len(live) && cnt == len(reg.List()))
		if limit > 0 {
			verif_Assert("C17.tun.never_exceeded", cnt <= limit)
		}
	}
	verif_Cover("C17.tun.done")
}

// Two tunnel registrations race at limit-1 occupancy (the second may re-attach a tunnel id that
// is already registered).
func Harness_C17_tunnel_cap_race() {
	limit := 1 + verif_Choose(2)
	reg := NewTunnelRegistry(&TunnelRegistryConfig{MaxTunnels: limit})
	for i := 0; i < limit-1; i++ {
		verif_Assert("C17.tunrace.pre", reg.Register(&TunnelConnection{ConnID: fmt.Sprintf("pre%d", i), TunnelID: "t0"}) == nil)
	}
	tid := []string{"", "t0"}[verif_Choose(2)]
	verif_Spawn(func() { reg.Register(&TunnelConnection{ConnID: "r1", TunnelID: tid}) })
	verif_Spawn(func() { reg.Register(&TunnelConnection{ConnID: "r2", TunnelID: tid}) })
	verif_Quiesce()
	verif_Assert("C17.tunrace.never_exceeded", reg.Count() <= limit)
	verif_Assert("C17.tunrace.one_admitted", reg.Count() == limit)
	verif_Cover("C17.tunrace.done")
}
