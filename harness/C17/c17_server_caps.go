package session

import (
	"context"
	"fmt"

	"tunnox-core/internal/stream"
)

// c17RW is a transport that carries its own connection id; fetching the id is a point
// where the goroutine may be descheduled (it sits between the cap check and the insert).
type c17RW struct {
	verifConn
	id string
}

func (c *c17RW) GetConnectionID() string { verif_Yield(); return c.id }

func newC17RW(id string) *c17RW {
	return &c17RW{verifConn: verifConn{In: &verifReader{}, Out: &verifSink{}}, id: id}
}

// The server-wide connection cap is never exceeded, however two admissions race at
// limit-1 occupancy; a refused admission changes nothing.
func Harness_C17_connection_cap() {
	ctx := context.Background()
	limit := verif_Choose(3) // 0 = unlimited, 1, 2
	cfg := DefaultSessionConfig()
	cfg.MaxConnections = limit
	sm := vsNewNode(ctx, "node-A", nil, &vsAuth{}, cfg)
	sm.streamFactory = stream.NewDefaultStreamFactory(ctx)
	sm.streamMgr = stream.NewStreamManager(sm.streamFactory, ctx)
	// occupancy limit-1
	for i := 0; i < limit-1; i++ {
		rw := newC17RW(fmt.Sprintf("pre%d", i))
		_, err := sm.CreateConnection(rw, rw)
		verif_Assert("C17.cap.pre", err == nil)
	}
	var e1, e2 error
	r1, r2 := newC17RW("r1"), newC17RW("r2")
	verif_Spawn(func() { _, e1 = sm.CreateConnection(r1, r1) })
	verif_Spawn(func() { _, e2 = sm.CreateConnection(r2, r2) })
	verif_Quiesce()
	n := len(sm.connMap)
	if limit > 0 {
		verif_Assert("C17.cap.never_exceeded", n <= limit)
		verif_Assert("C17.cap.one_admitted", e1 == nil || e2 == nil)
	} else {
		verif_Assert("C17.cap.unlimited", e1 == nil && e2 == nil)
	}
	admitted := limit - 1
	if limit == 0 {
		admitted = 0
	}
	if e1 == nil {
		admitted++
	}
	if e2 == nil {
		admitted++
	}
	verif_Assert("C17.cap.refused_changes_nothing", n == admitted)
	if e1 != nil || e2 != nil {
		verif_Cover("C17.cap.refused_seen")
	}
	verif_Cover("C17.cap.done")
}

// The control-connection cap (ClientRegistry) holds when two registrations race.
func Harness_C17_control_cap() {
	limit := 1 + verif_Choose(2)
	reg := NewClientRegistry(&ClientRegistryConfig{MaxConnections: limit})
	for i := 0; i < limit-1; i++ {
		verif_Assert("C17.ctl.pre", reg.Register(NewControlConnection(fmt.Sprintf("pre%d", i), nil, nil, "tcp")) == nil)
	}
	verif_Spawn(func() { reg.Register(NewControlConnection("r1", nil, nil, "tcp")) })
	verif_Spawn(func() { reg.Register(NewControlConnection("r2", nil, nil, "tcp")) })
	verif_Quiesce()
	verif_Assert("C17.ctl.never_exceeded", reg.Count() <= limit)
	verif_Cover("C17.ctl.done")
}

// Sequential histories of admissions and closes (incl. closing the same connection twice and
// closing an id that was never opened) under a small cap: the number of live connections never
// exceeds the cap, an admission is refused exactly when the cap is reached, and a slot freed by
// a close can be used again - once.
func Harness_C17_cap_histories() {
	ctx := context.Background()
	limit := 1 + verif_Choose(2)
	cfg := DefaultSessionConfig()
	cfg.MaxConnections = limit
	sm := vsNewNode(ctx, "node-A", nil, &vsAuth{}, cfg)
	sm.streamFactory = stream.NewDefaultStreamFactory(ctx)
	sm.streamMgr = stream.NewStreamManager(sm.streamFactory, ctx)
	live := map[string]bool{}
	ids := []string{"a", "b", "c", "d"}
	opened := 0
	n := verif_Bound("events")
	for i := 0; i < n; i++ {
		switch verif_Choose(3) {
		case 0: // a connection arrives
			if opened >= len(ids) {
				continue
			}
			id := ids[opened]
			opened++
			rw := newC17RW(id)
			_, err := sm.CreateConnection(rw, rw)
			if len(live) < limit {
				verif_Assert("C17.hist.admitted_below_cap", err == nil)
				live[id] = true
			} else {
				verif_Assert("C17.hist.refused_at_cap", err != nil)
				verif_Cover("C17.hist.refused")
			}
		case 1: // a connection that was opened at some point is closed (possibly again)
			if opened == 0 {
				continue
			}
			id := ids[verif_Choose(opened)]
			sm.CloseConnection(id)
			if !live[id] {
				verif_Cover("C17.hist.closed_twice")
			}
			delete(live, id)
		case 2: // a close for an id the server never saw
			sm.CloseConnection("ghost")
		}
		sm.connLock.RLock()
		cnt := len(sm.connMap)
		sm.connLock.RUnlock()
		verif_Assert("C17.hist.never_exceeded", cnt <= limit)
		verif_Assert("C17.hist.count_matches", cnt == len(live))
	}
	verif_Cover("C17.hist.done")
}
