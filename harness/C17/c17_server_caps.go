package session

import (
	"context"
	"fmt"

	"tunnox-core/internal/stream"
)

// c17RW is a transport that carries its own connection id; fetching the id is a point
// where the goroutine may be descheduled (it sits between the cap check and the insert).
type c17RW struct {
	verifConn
	id string
}

func (c *c17RW) GetConnectionID() string { verif_Yield(); return c.id }

func newC17RW(id string) *c17RW {
	return &c17RW{verifConn: verifConn{In: &verifReader{}, Out: &verifSink{}}, id: id}
}

// The server-wide connection cap is never exceeded, however two admissions race at
// limit-1 occupancy; a refused admission changes nothing.
func Harness_C17_connection_cap() {
	ctx := context.Background()
	limit := verif_Choose(3) // 0 = unlimited, 1, 2
	cfg := DefaultSessionConfig()
	cfg.MaxConnections = limit
	sm := vsNewNode(ctx, "node-A", nil, &vsAuth{}, cfg)
	sm.streamFactory = stream.NewDefaultStreamFactory(ctx)
	sm.streamMgr = stream.NewStreamManager(sm.streamFactory, ctx)
	// occupancy limit-1
	for i := 0; i < limit-1; i++ {
		rw := newC17RW(fmt.Sprintf("pre%d", i))
		_, err := sm.CreateConnection(rw, rw)
		verif_Assert("C17.cap.pre", err == nil)
	}
	var e1, e2 error
	r1, r2 := newC17RW("r1"), newC17RW("r2")
	verif_Spawn(func() { _, e1 = sm.CreateConnection(r1, r1) })
	verif_Spawn(func() { _, e2 = sm.CreateConnection(r2, r2) })
	verif_Quiesce()
	n := len(sm.connMap)
	if limit > 0 {
		verif_Assert("C17.cap.never_exceeded", n <= limit)
		verif_Assert("C17.cap.one_admitted", e1 == nil || e2 == nil)
	} else {
		verif_Assert("C17.cap.unlimited", e1 == nil && e2 == nil)
	}
	admitted := limit - 1
	if limit == 0 {
		admitted = 0
	}
	if e1 == nil {
		admitted++
	}
	if e2 == nil {
		admitted++
	}
	verif_Assert("C17.cap.refused_changes_nothing", n == admitted)
	if e1 != nil || e2 != nil {
		verif_Cover("C17.cap.refused_seen")
	}
	verif_Cover("C17.cap.done")
}

// The control-connection cap (ClientRegistry) holds when two registrations race.
func Harness_C17_control_cap() {
	limit := 1 + verif_Choose(2)
	reg := NewClientRegistry(&ClientRegistryConfig{MaxConnections: limit})
	for i := 0; i < limit-1; i++ {
		verif_Assert("C17.ctl.pre", reg.Register(NewControlConnection(fmt.Sprintf("pre%d", i), nil, nil, "tcp")) == nil)
	}
	verif_Spawn(func() { reg.Register(NewControlConnection("r1", nil, nil, "tcp")) })
	verif_Spawn(func() { reg.Register(NewControlConnection("r2", nil, nil, "tcp")) })
	verif_Quiesce()
	verif_Assert("C17.ctl.never_exceeded", reg.Count() <= limit)
	verif_Cover("C17.ctl.done")
}
