package conncode

import (
	"context"
	"time"

	"tunnox-core/internal/cloud/models"
)

// Two CreateConnectionCode calls for one target client race at limit-1 active codes.
func Harness_C17_code_quota() {
	verif_UseTapeRandom()
	ctx := context.Background()
	w := newC06World(ctx)
	w.svc.generator = NewGenerator(models.DefaultConnectionCodeGenerator())
	limit := 1 + verif_Choose(2)
	w.svc.maxActiveCodesPerClient = limit
	for i := 0; i < limit-1; i++ {
		w.createCode(10 * time.Minute)
	}
	if limit == 1 {
		// the client's index still lists a code whose records have lapsed (the normal state some
		// minutes after an unused code's activation window): listing cleans such references up
		verif_Assert("C17.code.setup.stale_ref", w.st.Storage.AppendToList("tunnox:index:conncode:target:3001", "conncode_lapsed") == nil)
		verif_Cover("C17.code.stale_reference")
	}
	var e1, e2 error
	verif_Spawn(func() {
		_, e1 = w.svc.CreateConnectionCode(&CreateRequest{TargetClientID: 3001, TargetAddress: "tcp://10.0.0.5:3306", CreatedBy: "a"})
	})
	verif_Spawn(func() {
		_, e2 = w.svc.CreateConnectionCode(&CreateRequest{TargetClientID: 3001, TargetAddress: "tcp://10.0.0.6:3306", CreatedBy: "b"})
	})
	verif_Quiesce()
	n, err := w.repo.CountActiveByTargetClient(3001)
	verif_Assert("C17.code.count", err == nil)
	// the codes the store really holds (by-id records), whatever the per-client index says
	recs, _ := w.st.Storage.QueryByPrefix("tunnox:runtime:conncode:id:", 0)
	stored := len(recs)
	verif_Known("C17-code-quota-check-then-create", e1 == nil && e2 == nil)
	verif_Assert("C17.code.never_exceeded", n <= limit && stored <= limit)
	// every stored active code is counted: a code the quota check cannot see would let later
	// (even sequential) creations exceed the quota for good
	verif_Assert("C17.code.all_stored_codes_counted", n == stored)
	verif_Cover("C17.code.done")
}

// Two activations of two different codes by one client race at limit-1 active mappings.
func Harness_C17_mapping_quota() {
	ctx := context.Background()
	w := newC06World(ctx)
	limit := 1 + verif_Choose(2)
	w.svc.maxActiveMappingsPerClient = limit
	now := time.Now()
	mk := func(id, code string) {
		c := &models.TunnelConnectionCode{ID: id, Code: code, TargetClientID: 3001, TargetAddress: "tcp://10.0.0.5:3306",
			ActivationTTL: 10 * time.Minute, MappingDuration: time.Hour, CreatedAt: now, ActivationExpiresAt: now.Add(10 * time.Minute), CreatedBy: "t"}
		verif_Assert("C17.mq.setup", w.repo.Create(c) == nil)
	}
	mk("conncode_a", "aaa-aaa-aaa")
	mk("conncode_b", "bbb-bbb-bbb")
	for i := 0; i < limit-1; i++ {
		exp := now.Add(time.Hour)
		w.maps.CreatePortMapping(&models.PortMapping{ListenClientID: 2001, TargetClientID: 3001, Status: models.MappingStatusActive, ExpiresAt: &exp})
	}
	var e1, e2 error
	verif_Spawn(func() {
		_, e1 = w.svc.ActivateConnectionCode(&ActivateRequest{Code: "aaa-aaa-aaa", ListenClientID: 2001, ListenAddress: "0.0.0.0:9001"})
	})
	verif_Spawn(func() {
		_, e2 = w.svc.ActivateConnectionCode(&ActivateRequest{Code: "bbb-bbb-bbb", ListenClientID: 2001, ListenAddress: "0.0.0.0:9002"})
	})
	verif_Quiesce()
	active := 0
	for _, m := range w.maps.m {
		if m.ListenClientID == 2001 && m.Status == models.MappingStatusActive {
			active++
		}
	}
	verif_Known("C17-mapping-quota-check-then-create", e1 == nil && e2 == nil)
	verif_Assert("C17.mq.never_exceeded", active <= limit)
	verif_Cover("C17.mq.done")
}

// A request refused because of a quota changes no state: after a listening client at its
// mapping quota was refused, the code is still unused - somebody below the quota can activate it,
// or its owner can revoke it - and no mapping was created for the refused client.
func Harness_C17_quota_refusal_stateless() {
	ctx := context.Background()
	w := newC06World(ctx)
	limit := 1 + verif_Choose(2)
	w.svc.maxActiveMappingsPerClient = limit
	now := time.Now()
	c := &models.TunnelConnectionCode{ID: "conncode_a", Code: "aaa-aaa-aaa", TargetClientID: 3001, TargetAddress: "tcp://10.0.0.5:3306",
		ActivationTTL: 10 * time.Minute, MappingDuration: time.Hour, CreatedAt: now, ActivationExpiresAt: now.Add(10 * time.Minute), CreatedBy: "t"}
	verif_Assert("C17.ref.setup", w.repo.Create(c) == nil)
	for i := 0; i < limit; i++ {
		exp := now.Add(time.Hour)
		w.maps.CreatePortMapping(&models.PortMapping{ListenClientID: 2001, TargetClientID: 3001, Status: models.MappingStatusActive, ExpiresAt: &exp})
	}
	before := len(w.maps.m)
	_, err := w.svc.ActivateConnectionCode(&ActivateRequest{Code: "aaa-aaa-aaa", ListenClientID: 2001, ListenAddress: "0.0.0.0:9001"})
	verif_Assert("C17.ref.refused", err != nil)
	verif_Assert("C17.ref.no_mapping_created", len(w.maps.m) == before)
	got, gerr := w.repo.GetByCode("aaa-aaa-aaa")
	verif_Assert("C17.ref.code_untouched", gerr == nil && !got.IsActivated && !got.IsRevoked)
	if verif_Bool() {
		m, aerr := w.svc.ActivateConnectionCode(&ActivateRequest{Code: "aaa-aaa-aaa", ListenClientID: 2002, ListenAddress: "0.0.0.0:9002"})
		verif_Assert("C17.ref.still_activatable", aerr == nil && m != nil && m.ListenClientID == 2002)
	} else {
		verif_Assert("C17.ref.still_revocable", w.svc.RevokeConnectionCode("aaa-aaa-aaa", "owner") == nil)
	}
	verif_Cover("C17.ref.done")
}

// A target client at its active-code quota: one of its codes is being activated - and the
// activation fails at the mapping store, so the code stays unused - while somebody creates a
// further code for the same client. The code under activation still occupies its quota slot the
// whole time: the creation is refused, the quota is not exceeded.
func Harness_C17_code_quota_vs_activation() {
	verif_UseTapeRandom()
	ctx := context.Background()
	w := newC06World(ctx)
	w.svc.generator = NewGenerator(models.DefaultConnectionCodeGenerator())
	limit := 1 + verif_Choose(2)
	w.svc.maxActiveCodesPerClient = limit
	w.createCode(10 * time.Minute) // "abc-def-ghi"
	for i := 1; i < limit; i++ {
		_, err := w.svc.CreateConnectionCode(&CreateRequest{TargetClientID: 3001, TargetAddress: "tcp://10.0.0.7:3306", CreatedBy: "setup"})
		verif_Assert("C17.cva.setup", err == nil)
	}
	w.maps.fail = true
	var eAct, eNew error
	verif_Spawn(func() {
		_, eAct = w.svc.ActivateConnectionCode(&ActivateRequest{Code: "abc-def-ghi", ListenClientID: 2001, ListenAddress: "0.0.0.0:9001"})
	})
	verif_Spawn(func() {
		_, eNew = w.svc.CreateConnectionCode(&CreateRequest{TargetClientID: 3001, TargetAddress: "tcp://10.0.0.8:3306", CreatedBy: "b"})
	})
	verif_Quiesce()
	verif_Assert("C17.cva.activation_failed", eAct != nil)
	recs, _ := w.st.Storage.QueryByPrefix("tunnox:runtime:conncode:id:", 0)
	verif_Assert("C17.cva.never_exceeded", len(recs) <= limit)
	verif_Assert("C17.cva.creation_refused_at_quota", eNew != nil)
	verif_Cover("C17.cva.done")
}
