package mapping

import (
	"context"
	"errors"
	"io"
	"net"
	"tunnox-core/internal/cloud/models"

	"tunnox-core/internal/config"
	"tunnox-core/internal/stream"
)

// doubles: the adapter observes how many connections are inside the handler at once
type c17Adapter struct {
	MappingAdapter
	h       *BaseMappingHandler
	maxSeen int32
	entered int
	inside  int32
	base    int32 // connections the mapping already had
}

func (a *c17Adapter) PrepareConnection(conn io.ReadWriteCloser) error {
	// connections admitted and inside at the same time, on top of those the mapping already had
	// (not the handler's own counter: that one also counts, for a moment, an arrival that is about
	// to be refused by the re-check after counting)
	a.entered++
	a.inside++
	if n := a.base + a.inside; n > a.maxSeen {
		a.maxSeen = n
	}
	verif_Yield() // the connection stays active while other admissions proceed
	a.inside--
	return errors.New("c17: stop after admission")
}

type c17Client struct {
	ClientInterface
	quota int
}

func (c *c17Client) GetUserQuota() (*models.UserQuota, error) {
	verif_Yield() // a round trip to the management API: other connections arrive meanwhile
	return &models.UserQuota{MaxConnections: c.quota}, nil
}

func (c *c17Client) GetContext() context.Context { return context.Background() }
func (c *c17Client) DialTunnel(t, m, s string) (net.Conn, stream.PackageStreamer, error) {
	return nil, nil, errors.New("c17: no tunnel")
}
func (c *c17Client) CheckMappingQuota(id string) error { return nil }

type c17Local struct{ closed bool }

func (c *c17Local) Read(p []byte) (int, error)  { return 0, io.EOF }
func (c *c17Local) Write(p []byte) (int, error) { return len(p), nil }
func (c *c17Local) Close() error                { c.closed = true; return nil }

// The per-mapping concurrent-connection limit is never exceeded when two local
// connections arrive at limit-1 occupancy.
func Harness_C17_mapping_limit() {
	limit := 1 + verif_Choose(2)
	// the limit comes from the mapping's own configuration or, when that is 0, from the user quota
	cfgLimit, quotaLimit := limit, 0
	if verif_Bool() {
		cfgLimit, quotaLimit = 0, limit
	}
	h := &BaseMappingHandler{config: config.MappingConfig{MappingID: "m1", MaxConnections: cfgLimit}, client: &c17Client{quota: quotaLimit}, trafficStats: &TrafficStats{}}
	ad := &c17Adapter{h: h}
	h.adapter = ad
	// one slot free, or none (then every arrival must be refused)
	occupied := limit - 1 + verif_Choose(2)
	h.activeConnCount.Store(int32(occupied))
	ad.base = int32(occupied)
	l1, l2 := &c17Local{}, &c17Local{}
	verif_Spawn(func() { h.handleConnection(l1) })
	verif_Spawn(func() { h.handleConnection(l2) })
	verif_Quiesce()
	verif_Assert("C17.map.never_exceeded", int(ad.maxSeen) <= limit)
	verif_Assert("C17.map.count_restored", int(h.activeConnCount.Load()) == occupied)
	if occupied == limit {
		verif_Assert("C17.map.full_refuses_all", ad.entered == 0)
		verif_Cover("C17.map.full")
	}
	verif_Assert("C17.map.all_closed", l1.closed && l2.closed)
	if ad.entered < 2 {
		verif_Cover("C17.map.refused_seen")
	}
	verif_Cover("C17.map.done")
}
